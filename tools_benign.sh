#!/bin/bash
# usage: tools_benign.sh <dir-with-eN/patch.diff> -- applies each behaviour-preserving edit to a scratch worktree and runs the
# checks whose packages contain a touched file against it; any VIOLATION is a false alarm of the machinery
export GOFLAGS=-mod=mod GOPROXY=off GOSUMDB=off GOTOOLCHAIN=local
wt=/var/tmp/benign-wt-$$; out=/var/tmp/benign-out-$$; mkdir -p $out
git -C /repo worktree add -q --detach "$wt" HEAD || exit 2
cp /verif/expected_obligations.json "$wt/.verif_expected.json"
trap 'git -C /repo worktree remove --force "$wt" >/dev/null 2>&1; rm -rf "$out"' EXIT
for e in "$1"/e*/; do
  ( cd "$wt" && git checkout -q -- . && git apply "$e/patch.diff" ) || { echo "$(basename $e): patch does not apply"; continue; }
  files=$(grep '^+++ b/' "$e/patch.diff" | sed 's#+++ b/##' | tr '\n' ' ')
  props=$(python3 - $files <<'PY'
import json,sys,os
d=json.load(open('/verif/props.json'))
dirs={'./'+os.path.dirname(f) for f in sys.argv[1:]}
print(' '.join(sorted(k for k,v in d.items() if dirs & set(v['packages']))))
PY
)
  alarms=""
  for p in $props; do
    res=$(cd /verif && VERIF_OUT="$out" ./bin/vcgen check $p --repo="$wt" 2>&1)
    if echo "$res" | grep -q "VIOLATION"; then alarms="$alarms $p[$(echo "$res" | grep 'failed:' | head -2 | sed 's/  failed: //' | tr '\n' ';' | cut -c1-230)]"; fi
  done
  echo "$(basename $e) ($files; checks: $props): ${alarms:-no alarm}"
done
