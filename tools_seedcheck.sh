#!/bin/bash
# applies every seeded breaking change to /repo in turn, runs the check of the property it breaks, records the
# outcome in the seed's meta.json, and restores /repo. /repo must be clean.
cd /repo || exit 2
if [ -n "$(git status --porcelain)" ]; then echo "/repo is not clean"; exit 2; fi
for d in /verif/seeded/*/; do
  id=$(basename "$d")
  [ -n "$1" ] && [ "$1" != "$id" ] && continue
  prop=$(python3 -c "import json;print(json.load(open('$d/meta.json'))['breaks_property'])")
  if ! git apply --check "$d/patch.diff" 2>/dev/null; then echo "$id: patch no longer applies"; continue; fi
  git apply "$d/patch.diff"
  out=$(cd /verif && ./check "$prop" 2>&1 | tail -12)
  git checkout -- . 
  python3 - "$d" "$out" <<'PY'
import json,sys,re
d,out=sys.argv[1],sys.argv[2]
m=json.load(open(d+'/meta.json'))
viol='VIOLATION property=' in out
m['detected_by_check']=viol
m['failed_obligations']=re.findall(r'failed: (.*)',out)
json.dump(m,open(d+'/meta.json','w'),indent=1)
print(m['id'], 'DETECTED' if viol else 'MISSED', m['failed_obligations'][:3])
PY
done
