package vc

import (
	"fmt"
	"os"
	"go/types"
	"strings"

	"golang.org/x/tools/go/ssa"
)

type modSet struct {
	all       bool
	pats      []matcher  // pattern-selected classes (from callee modifies clauses)
	excepts   [][]string // for every havoc-all callee: the items it preserves
	exceptPkg []string
	classes   map[string]bool
	// cell classes named only because of writes to local variables: class -> the allocs (nil entry: unresolved free variable)
	cellAllocs map[string][]*ssa.Alloc
	allocs    map[*ssa.Alloc]bool
	allCells  bool
	ghosts    map[string]bool
	allGhosts bool
}

func newModSet() *modSet {
	return &modSet{classes: map[string]bool{}, allocs: map[*ssa.Alloc]bool{}, ghosts: map[string]bool{}}
}

func (m *modSet) noteCell(class string, a *ssa.Alloc) {
	if m.cellAllocs == nil {
		m.cellAllocs = map[string][]*ssa.Alloc{}
	}
	m.cellAllocs[class] = append(m.cellAllocs[class], a)
}

// localOnlyCells: the cell classes in the set that are there only because of writes to variables of the running invocation
// (declared in fn itself or in a function executed within it - not in a lexically enclosing function, whose variables
// exist before fn is called). Such writes cannot touch an object that existed when fn was entered.
func (m *modSet) localOnlyCells(fn *ssa.Function) map[string]bool {
	outer := map[*ssa.Function]bool{}
	for p := fn.Parent(); p != nil; p = p.Parent() {
		outer[p] = true
	}
	res := map[string]bool{}
	for c, as := range m.cellAllocs {
		ok := true
		for _, a := range as {
			if a == nil || outer[a.Parent()] {
				ok = false
			}
		}
		if ok {
			res[c] = true
		}
	}
	return res
}

// rootAlloc resolves an address value to the Alloc it denotes (through free variables of closures).
func rootAlloc(v ssa.Value) *ssa.Alloc {
	switch v := v.(type) {
	case *ssa.Alloc:
		return v
	case *ssa.FreeVar:
		fn := v.Parent()
		par := fn.Parent()
		if par == nil {
			return nil
		}
		idx := -1
		for i, fv := range fn.FreeVars {
			if fv == v {
				idx = i
			}
		}
		for _, b := range par.Blocks {
			for _, ins := range b.Instrs {
				if mc, ok := ins.(*ssa.MakeClosure); ok && mc.Fn == fn && idx >= 0 && idx < len(mc.Bindings) {
					return rootAlloc(mc.Bindings[idx])
				}
			}
		}
	}
	return nil
}

// addrClass computes the heap class written by a store through addr (syntactically).
func addrClass(addr ssa.Value, m *modSet) {
	switch a := addr.(type) {
	case *ssa.Alloc, *ssa.FreeVar:
		if r := rootAlloc(a); r != nil {
			m.allocs[r] = true
			if !allocPromotable(r) {
				cc := cellClass(r.Type().(*types.Pointer).Elem())
				m.classes[cc] = true
				m.noteCell(cc, r)
			}
			return
		}
		if fv, ok := a.(*ssa.FreeVar); ok {
			cc := cellClass(fv.Type().(*types.Pointer).Elem())
			m.classes[cc] = true
			m.noteCell(cc, nil)
		}
	case *ssa.FieldAddr:
		// walk nested value structs up to the pointer base
		var path []string
		cur := a
		for {
			pt := cur.X.Type().Underlying().(*types.Pointer)
			st := pt.Elem().Underlying().(*types.Struct)
			path = append([]string{st.Field(cur.Field).Name()}, path...)
			if inner, ok := cur.X.(*ssa.FieldAddr); ok {
				ipt := inner.X.Type().Underlying().(*types.Pointer)
				ist := ipt.Elem().Underlying().(*types.Struct)
				if _, isStruct := ist.Field(inner.Field).Type().Underlying().(*types.Struct); isStruct {
					cur = inner
					continue
				}
			}
			owner := pt.Elem()
			ft := st.Field(cur.Field).Type()
			_ = ft
			leafTy := a.Type().(*types.Pointer).Elem()
			if ls, ok := leafTy.Underlying().(*types.Struct); ok {
				structFields(ls, nil, func(p []string, _ types.Type) {
					m.classes[fieldClass(owner, append(append([]string{}, path...), p...))] = true
				})
			} else {
				m.classes[fieldClass(owner, path)] = true
			}
			return
		}
	case *ssa.IndexAddr:
		switch t := a.X.Type().Underlying().(type) {
		case *types.Slice:
			m.classes[elemClass(t.Elem())] = true
		case *types.Pointer:
			if at, ok := t.Elem().Underlying().(*types.Array); ok {
				m.classes[elemClass(at.Elem())] = true
			}
		}
	case *ssa.Global:
		m.classes[globalClass(a)] = true
	default:
		pt, ok := addr.Type().Underlying().(*types.Pointer)
		if !ok {
			m.all = true
			return
		}
		if st, ok := pt.Elem().Underlying().(*types.Struct); ok {
			structFields(st, nil, func(p []string, _ types.Type) {
				m.classes[fieldClass(pt.Elem(), p)] = true
			})
		} else {
			m.classes[cellClass(pt.Elem())] = true
			m.noteCell(cellClass(pt.Elem()), nil)
		}
	}
}

// instrMods accumulates what one instruction may modify.
func (u *Unit) instrMods(ins ssa.Instruction, m *modSet, seen map[*ssa.Function]bool) {
	switch ins := ins.(type) {
	case *ssa.Store:
		addrClass(ins.Addr, m)
	case *ssa.MapUpdate:
		mt := ins.Map.Type().Underlying().(*types.Map)
		m.classes[mapDomClass(mt)] = true
		m.classes[mapValClass(mt)] = true
		m.classes["MapLen."+mapDomClass(mt)[7:]] = true
	case *ssa.Alloc:
		if !allocPromotable(ins) {
			// zero-initialisation writes the classes of the object
			elem := ins.Type().(*types.Pointer).Elem()
			switch et := elem.Underlying().(type) {
			case *types.Struct:
				structFields(et, nil, func(p []string, _ types.Type) { m.classes[fieldClass(elem, p)] = true })
			case *types.Array:
				m.classes[elemClass(et.Elem())] = true
			default:
				m.classes[cellClass(elem)] = true
				m.noteCell(cellClass(elem), ins)
			}
		}
	case *ssa.MakeMap:
		m.classes[mapDomClass(ins.Type().Underlying().(*types.Map))] = true
	case *ssa.MakeSlice:
		m.classes[elemClass(ins.Type().Underlying().(*types.Slice).Elem())] = true
	case *ssa.Convert:
		if sortOf(ins.X.Type()) == SString && sortOf(ins.Type()) == SSlice {
			m.classes[elemClass(types.Typ[types.Uint8])] = true
		}
	case *ssa.Next:
		m.ghosts["$visited"] = true
		m.ghosts["$visitedPrev"] = true
	case *ssa.MakeClosure:
		// the closure may be invoked by whoever receives it
		u.fnMods(ins.Fn.(*ssa.Function), m, seen)
	case *ssa.Call:
		u.callMods(ins.Common(), m, seen)
	case *ssa.Defer:
		u.callMods(ins.Common(), m, seen)
	case *ssa.Go:
		// the goroutine body is not interleaved: for loop havoc its own writes count like a call of the closure
		if fn := ins.Common().StaticCallee(); fn != nil && len(fn.Blocks) > 0 {
			u.fnMods(fn, m, seen)
		} else if mc, ok := ins.Common().Value.(*ssa.MakeClosure); ok {
			u.fnMods(mc.Fn.(*ssa.Function), m, seen)
		} else {
			u.callMods(ins.Common(), m, seen)
		}
	}
}

func (u *Unit) callMods(c *ssa.CallCommon, m *modSet, seen map[*ssa.Function]bool) {
	name := calleeName(c)
	if b, ok := c.Value.(*ssa.Builtin); ok {
		switch b.Name() {
		case "append", "copy":
			if sl, ok := c.Args[0].Type().Underlying().(*types.Slice); ok {
				m.classes[elemClass(sl.Elem())] = true
				if b.Name() == "copy" && sortOf(sl.Elem()) == SInt {
					m.pats = append(m.pats, matcher{prefix: "Enc."})
				}
			}
		case "delete":
			mt := c.Args[0].Type().Underlying().(*types.Map)
			m.classes[mapDomClass(mt)] = true
			m.classes["MapLen."+mapDomClass(mt)[7:]] = true
		}
		return
	}
	if spec, ok := u.eng.contractFor(name, u.pkgName()); ok && !spec.Inline {
		u.specMods(spec, m)
		return
	}
	if _, ok := intrinsics[name]; ok {
		if cls, ok := intrinsicMods[name]; ok {
			for _, c := range cls {
				m.classes[c] = true
			}
		}
		return
	}
	var target *ssa.Function
	if fn := c.StaticCallee(); fn != nil {
		target = fn
	}
	if target != nil {
		tname := canonFn(target)
		if spec, ok := u.eng.contractFor(tname, u.pkgName()); ok && !spec.Inline {
			u.specMods(spec, m)
			return
		}
		spec, _ := u.eng.contractFor(tname, u.pkgName())
		if (target.Parent() != nil || (spec != nil && spec.Inline)) && len(target.Blocks) > 0 {
			u.fnMods(target, m, seen)
			return
		}
		// a function that is new relative to the baseline is verified as part of its caller (see Frame.spliced)
		if h := u.splicedHelper(c, nil); h != nil {
			u.fnMods(h, m, seen)
			return
		}
	}
	if benign(name) {
		return
	}
	if u.spec != nil && u.spec.Dyn != nil && name == "" {
		if ds, ok := u.spec.Dyn[calleeShort(c)]; ok {
			u.specMods(ds, m)
			return
		}
	}
	// call of a local function variable that only ever holds closures written in this function: the closures' write sets
	if name == "" {
		if fns := localClosureTargets(c); len(fns) > 0 {
			for _, fn := range fns {
				u.fnMods(fn, m, seen)
			}
			return
		}
	}
	// dynamic call of a captured closure variable: resolved at execution time; conservatively everything
	if os.Getenv("VERIF_DEBUG") != "" {
		fmt.Fprintf(os.Stderr, "mods-debug %s: unresolved call %s (%T, short %s, dyn %v) forgets all\n", u.name, orDyn(name, c), c.Value, calleeShort(c), u.spec != nil && u.spec.Dyn != nil)
	}
	m.all = true
	for g := range u.eng.GlobalGhosts {
		if g != "$held" {
			m.ghosts[g] = true
		}
	}
	m.excepts = append(m.excepts, nil)
	m.exceptPkg = append(m.exceptPkg, "")
	m.allCells = false
	// closures passed as arguments
	for _, a := range c.Args {
		if mc, ok := a.(*ssa.MakeClosure); ok {
			u.fnMods(mc.Fn.(*ssa.Function), m, seen)
		}
	}
}

// localClosureTargets: for a call through a local variable (v := func(){...}; ...; v()), the closures the variable can hold -
// nil unless every store to the variable, in the declaring function and in every closure capturing it, stores a closure.
func localClosureTargets(c *ssa.CallCommon) []*ssa.Function {
	ld, ok := c.Value.(*ssa.UnOp)
	if !ok {
		return nil
	}
	r := rootAlloc(ld.X)
	if r == nil || r.Referrers() == nil {
		return nil
	}
	var res []*ssa.Function
	okAll := true
	var scan func(addr ssa.Value, refs []ssa.Instruction, depth int)
	scan = func(addr ssa.Value, refs []ssa.Instruction, depth int) {
		if depth > 4 {
			okAll = false
			return
		}
		for _, ref := range refs {
			switch in := ref.(type) {
			case *ssa.Store:
				if in.Addr != addr {
					okAll = false // the address itself is stored somewhere
					continue
				}
				if mc, ok := in.Val.(*ssa.MakeClosure); ok {
					res = append(res, mc.Fn.(*ssa.Function))
				} else if fn, ok := in.Val.(*ssa.Function); ok {
					res = append(res, fn)
				} else {
					okAll = false
				}
			case *ssa.UnOp: // load
			case *ssa.MakeClosure:
				fn := in.Fn.(*ssa.Function)
				for i, b := range in.Bindings {
					if b == addr && i < len(fn.FreeVars) {
						fv := fn.FreeVars[i]
						if fv.Referrers() != nil {
							scan(fv, *fv.Referrers(), depth+1)
						}
					}
				}
			case *ssa.DebugRef:
			default:
				okAll = false
			}
		}
	}
	scan(r, *r.Referrers(), 0)
	if !okAll {
		return nil
	}
	return res
}

// restoresGhost: the contract has an unconditional postcondition "$g == old($g)": the callee may change the ghost while it runs
// but every call returns with the value it started with, so a loop whose body only reaches the ghost through such calls
// does not modify it (the postcondition is a proved obligation of the callee, or part of an assumed contract).
func restoresGhost(spec *UnitSpec, g string) bool {
	want := g + " == old(" + g + ")"
	for _, c := range spec.Ensures {
		if strings.TrimSpace(c.Text) == want {
			return true
		}
	}
	return false
}

func (u *Unit) specMods(spec *UnitSpec, m *modSet) {
	if len(spec.Retains) > 0 {
		m.ghosts[ghRetained] = true
	}
	if len(spec.Consumes) > 0 {
		m.ghosts[ghConsumed] = true
	}
	for _, it := range spec.Modifies {
		if strings.HasPrefix(it, "$") && !restoresGhost(spec, it) {
			m.ghosts[it] = true
		}
	}
	if os.Getenv("VERIF_DEBUG") != "" && (len(spec.Preserves) > 0 || !spec.ModSet && !spec.Pure) {
		fmt.Fprintf(os.Stderr, "mods-debug %s: callee %s forgets all but %v\n", u.name, spec.Name, spec.Preserves)
	}
	switch {
	case len(spec.Preserves) > 0:
		m.all = true
		m.excepts = append(m.excepts, spec.Preserves)
		m.exceptPkg = append(m.exceptPkg, spec.Pkg)
	case !spec.ModSet && !spec.Pure:
		m.all = true
		m.excepts = append(m.excepts, nil)
		m.exceptPkg = append(m.exceptPkg, spec.Pkg)
	default:
		m.pats = append(m.pats, itemsMatchers(spec.Modifies, spec.Pkg)...)
	}
}

func (u *Unit) fnMods(fn *ssa.Function, m *modSet, seen map[*ssa.Function]bool) {
	if seen[fn] {
		return
	}
	seen[fn] = true
	for _, b := range fn.Blocks {
		for _, ins := range b.Instrs {
			u.instrMods(ins, m, seen)
		}
	}
}

func (f *Frame) loopMods(li *loopInfo) *modSet {
	m := newModSet()
	seen := map[*ssa.Function]bool{}
	for _, b := range f.fn.Blocks {
		if !li.body[b] {
			continue
		}
		for _, ins := range b.Instrs {
			f.u.instrMods(ins, m, seen)
		}
	}
	// ghost assignments at at-points inside the loop are found by name: any ghostset in the unit spec
	if f.u.spec != nil {
		for _, at := range f.u.spec.Ats {
			inside := true
			where := at.Where
			if f.prefix != "" && strings.HasPrefix(where, f.prefix+" ") {
				where = strings.TrimPrefix(where, f.prefix+" ")
			} else if f.prefix != "" || strings.HasPrefix(where, "$") || strings.HasPrefix(where, "@") {
				where = "" // anchor of another (inlined) frame: conservatively inside
			}
			if where != "" {
				w := strings.TrimSuffix(where, " before")
				if w == "return" || w == "entry" {
					inside = w == "return" // a return inside the loop leaves it; harmless to include
				} else {
					inside = false
					for ins, name := range f.callOrd {
						if name == w && li.body[ins.Block()] {
							inside = true
						}
					}
				}
			}
			if !inside {
				continue
			}
			for _, c := range at.Clauses {
				if c.Kind == "ghostset" {
					m.ghosts[c.Ghost] = true
				}
			}
		}
	}
	return m
}

// prescanClasses registers all heap classes syntactically used by fn and its closures so that state merges know them.
func (u *Unit) prescanClasses(fn *ssa.Function, seen map[*ssa.Function]bool) {
	if seen[fn] {
		return
	}
	seen[fn] = true
	reg := func(class string, s Sort) {
		if _, ok := u.classSort[class]; !ok {
			u.classSort[class] = s
		}
	}
	for _, b := range fn.Blocks {
		for _, ins := range b.Instrs {
			switch ins := ins.(type) {
			case *ssa.FieldAddr:
				pt := ins.X.Type().Underlying().(*types.Pointer)
				st := pt.Elem().Underlying().(*types.Struct)
				ft := st.Field(ins.Field).Type()
				if _, isStruct := ft.Underlying().(*types.Struct); !isStruct {
					if _, nested := ins.X.(*ssa.FieldAddr); !nested {
						reg(fieldClass(pt.Elem(), []string{st.Field(ins.Field).Name()}), ArraySort(SInt, sortOf(ft)))
					}
				}
			case *ssa.MakeClosure:
				u.prescanClasses(ins.Fn.(*ssa.Function), seen)
			case *ssa.Call:
				if t := ins.Common().StaticCallee(); t != nil && t.Parent() != nil {
					u.prescanClasses(t, seen)
				}
			}
		}
	}
}

func hasPrefixAny(s string, ps ...string) bool {
	for _, p := range ps {
		if strings.HasPrefix(s, p) {
			return true
		}
	}
	return false
}
