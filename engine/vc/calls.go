package vc

import (
	"fmt"
	"go/types"
	"strings"

	"golang.org/x/tools/go/ssa"
)

// calleeName returns the canonical contract key of a call.
func calleeName(c *ssa.CallCommon) string {
	if c.IsInvoke() {
		return canonInvoke(c)
	}
	if fn := c.StaticCallee(); fn != nil {
		return canonFn(fn)
	}
	if b, ok := c.Value.(*ssa.Builtin); ok {
		return "builtin." + b.Name()
	}
	return ""
}

func (f *Frame) callArgs(c *ssa.CallCommon, st *State) []Val {
	var args []Val
	if c.IsInvoke() {
		args = append(args, f.val(c.Value, st))
	}
	for _, a := range c.Args {
		args = append(args, f.val(a, st))
	}
	return args
}

func resultVal(u *Unit, st *State, sig *types.Signature, hint string) Val {
	res := sig.Results()
	switch res.Len() {
	case 0:
		return Val{}
	case 1:
		return Val{T: u.freshOf(st, hint, res.At(0).Type()), Ty: res.At(0).Type()}
	}
	var tup []Val
	for i := 0; i < res.Len(); i++ {
		tup = append(tup, Val{T: u.freshOf(st, fmt.Sprintf("%s_%d", hint, i), res.At(i).Type()), Ty: res.At(i).Type()})
	}
	return Val{Tup: tup}
}

func (f *Frame) execCall(ins ssa.Instruction, c *ssa.CallCommon, st *State) Val {
	u := f.u
	// devirtualise: an interface method call on a value whose concrete type is known in this unit
	if c.IsInvoke() {
		if rv := f.val(c.Value, st); rv.Conc != nil && rv.ConcVal != nil {
			if m := u.eng.Prog.LookupMethod(rv.Conc, c.Method.Pkg(), c.Method.Name()); m != nil && m.Synthetic == "" {
				dc := &ssa.CallCommon{Value: m, Args: append([]ssa.Value{devirtRecv{c.Value, rv.Conc}}, c.Args...)}
				f.vals[dc.Args[0]] = *rv.ConcVal
				if _, reg := f.callOrd[ins]; reg {
					// keep the anchor of the original instruction
				}
				return f.execCallCommon(ins, dc, st)
			}
		}
	}
	return f.execCallCommon(ins, c, st)
}

// devirtRecv is a placeholder ssa.Value standing for the concrete receiver of a devirtualised call.
type devirtRecv struct {
	ssa.Value
	ty types.Type
}

func (d devirtRecv) Type() types.Type { return d.ty }
func (d devirtRecv) Name() string     { return d.Value.Name() + "_conc" }

func (f *Frame) execCallCommon(ins ssa.Instruction, c *ssa.CallCommon, st *State) Val {
	u := f.u
	name := calleeName(c)
	args := f.callArgs(c, st)
	sig := c.Signature()
	anchor := strings.TrimPrefix(f.callOrd[ins], "call ")

	// builtins
	if b, ok := c.Value.(*ssa.Builtin); ok {
		return f.execBuiltin(b, c, args, st, ins)
	}
	// contract
	if spec, ok := u.eng.contractFor(name, u.pkgName()); ok && !(spec.Inline && c.StaticCallee() != nil) {
		return f.applyContract(spec, name, c, sig, args, st, anchor)
	}
	// intrinsics
	if h, ok := intrinsics[name]; ok {
		return h(f, c, args, st)
	}
	// closure / function value known statically
	var target *ssa.Function
	var env []Val
	if fn := c.StaticCallee(); fn != nil {
		target = fn
		if mc, ok := c.Value.(*ssa.MakeClosure); ok {
			env = f.val(mc, st).Env
		}
	} else if !c.IsInvoke() {
		fv := f.val(c.Value, st)
		if fv.Fn != nil && len(fv.Alts) == 0 {
			target, env = fv.Fn, fv.Env
		} else if len(fv.Alts) > 0 {
			if r, ok := f.callFnValue(fv, args, st, sig, anchor); ok {
				return r
			}
		}
	}
	if target != nil {
		tname := canonFn(target)
		if spec, ok := u.eng.contractFor(tname, u.pkgName()); ok && !spec.Inline {
			return f.applyContract(spec, tname, c, sig, args, st, anchor)
		}
		spec, _ := u.eng.contractFor(tname, u.pkgName())
		if target.Parent() != nil || (spec != nil && spec.Inline) {
			if len(target.Blocks) > 0 && u.inlineDepth < maxInlineDepth {
				return f.inline(target, env, args, st)
			}
		}
	}
	if h := u.splicedHelper(c, f.fn); h != nil && !f.spliced && u.inlineDepth < maxInlineDepth {
		u.AssumedUse["function "+canonFn(h)+" is new relative to the committed baseline and has no contract: verified as part of its caller "+canonFn(f.fn)] = true
		return f.inlineSpliced(h, ins, args, st)
	}
	if benign(name) {
		return resultVal(u, st, sig, "r_"+sanitize(name))
	}
	if u.spec != nil && u.spec.Dyn != nil && name == "" {
		if ds, ok := u.spec.Dyn[calleeShort(c)]; ok {
			return f.applyContract(ds, ds.Name, c, sig, args, st, anchor)
		}
	}
	// unknown call: havoc the heap
	u.abstractf("%s: call to %s has no contract: heap havoced, result unconstrained", u.name, orDyn(name, c))
	u.eventWhy = "call to " + orDyn(name, c) + " (no contract)"
	u.havocAll(st)
	f.havocGhosts(st)
	// closures passed to unknown code may run: havoc the cells they write
	f.havocClosureArgs(args, st)
	return resultVal(u, st, sig, "r_"+sanitize(name))
}

func orDyn(name string, c *ssa.CallCommon) string {
	if name != "" {
		return name
	}
	return "dynamic callee " + c.Value.Name()
}

func (f *Frame) havocClosureArgs(args []Val, st *State) {
	u := f.u
	for _, a := range args {
		if a.Fn == nil {
			continue
		}
		m := &modSet{classes: map[string]bool{}, allocs: map[*ssa.Alloc]bool{}, ghosts: map[string]bool{}}
		u.fnMods(a.Fn, m, map[*ssa.Function]bool{})
		for c := range st.cells {
			if m.allocs[c.Alloc] {
				st.cells[c] = u.defs.Fresh("hc_"+c.Name, c.Sort)
			}
		}
	}
}

// inline executes a callee body in place.
func (f *Frame) inline(target *ssa.Function, env []Val, args []Val, st *State) Val {
	u := f.u
	u.inlineDepth++
	defer func() { u.inlineDepth-- }()
	suffix := strings.TrimPrefix(canonFn(target), canonFn(rootFn(target)))
	if target.Parent() == nil {
		suffix = "@" + target.Name()
	} else if rootFn(target) != rootFn(u.fn) {
		suffix = "@" + rootFn(target).Name() + suffix
	}
	nf := u.newFrame(target, suffix, false)
	for i, p := range target.Params {
		if i < len(args) {
			v := args[i]
			v.Ty = p.Type()
			nf.vals[p] = v
		}
	}
	for i, fv := range target.FreeVars {
		if i < len(env) {
			nf.vals[fv] = env[i]
		}
	}
	saved := st.defers
	st.defers = nil
	rst, rets := nf.run(st)
	// copy the merged state back into st
	*st = *rst
	st.defers = saved
	switch len(rets) {
	case 0:
		return Val{}
	case 1:
		return rets[0]
	}
	return Val{Tup: rets}
}

// inlineSpliced runs the body of a spliced helper (see Frame.spliced) in place of the call.
func (f *Frame) inlineSpliced(target *ssa.Function, at ssa.Instruction, args []Val, st *State) Val {
	u := f.u
	u.inlineDepth++
	defer func() { u.inlineDepth-- }()
	nf := u.newFrame(target, f.prefix, false)
	nf.spliced = true
	nf.parent = f
	nf.parentBlock = at.Block()
	for i, ins := range at.Block().Instrs {
		if ins == at {
			nf.parentIdx = i
		}
	}
	// loops of the helper carry no specification of their own (loop ordinals belong to the caller)
	for _, li := range nf.loops {
		li.spec = nil
	}
	// call anchors: the caller's numbering
	for ins := range nf.callOrd {
		if name, ok := f.callOrd[ins]; ok {
			nf.callOrd[ins] = name
		}
	}
	for i, p := range target.Params {
		if i < len(args) {
			v := args[i]
			v.Ty = p.Type()
			nf.vals[p] = v
		}
	}
	saved := st.defers
	st.defers = nil
	rst, rets := nf.run(st)
	*st = *rst
	st.defers = saved
	switch len(rets) {
	case 0:
		return Val{}
	case 1:
		return rets[0]
	}
	return Val{Tup: rets}
}

func rootFn(fn *ssa.Function) *ssa.Function {
	for fn.Parent() != nil {
		fn = fn.Parent()
	}
	return fn
}

// ---------------------------------------------------------------------------
// Contracts at call sites

func sigParamNames(sig *types.Signature, callee *ssa.Function, invoke bool) []string {
	var names []string
	if sig.Recv() != nil {
		n := sig.Recv().Name()
		if n == "" || n == "_" {
			n = "recv"
		}
		names = append(names, n)
	} else if invoke {
		names = append(names, "recv")
	}
	for i := 0; i < sig.Params().Len(); i++ {
		n := sig.Params().At(i).Name()
		if n == "" || n == "_" {
			n = fmt.Sprintf("arg%d", i)
		}
		names = append(names, n)
	}
	return names
}

func (f *Frame) applyContract(spec *UnitSpec, name string, c *ssa.CallCommon, sig *types.Signature, args []Val, st *State, anchor string) Val {
	u := f.u
	if spec.Assumed {
		u.AssumedUse[name] = true
	}
	// parameter names: prefer the callee's own declaration
	var names []string
	var ptypes []types.Type
	if callee := c.StaticCallee(); callee != nil {
		names = sigParamNames(callee.Signature, callee, false)
		if callee.Signature.Recv() != nil {
			ptypes = append(ptypes, callee.Signature.Recv().Type())
		}
		for i := 0; i < callee.Signature.Params().Len(); i++ {
			ptypes = append(ptypes, callee.Signature.Params().At(i).Type())
		}
		// closures: free variables by name
	} else if c.IsInvoke() {
		msig := c.Method.Type().(*types.Signature)
		names = sigParamNames(msig, nil, true)
		ptypes = append(ptypes, c.Value.Type())
		for i := 0; i < msig.Params().Len(); i++ {
			ptypes = append(ptypes, msig.Params().At(i).Type())
		}
	} else {
		names = sigParamNames(sig, nil, false)
		for i := 0; i < sig.Params().Len(); i++ {
			ptypes = append(ptypes, sig.Params().At(i).Type())
		}
	}
	argMap := map[string]TV{}
	for i, n := range names {
		if i < len(args) {
			var ty types.Type
			if i < len(ptypes) {
				ty = ptypes[i]
			}
			argMap[n] = TV{T: args[i].T, Ty: ty}
		}
	}
	pre := st.clone()
	var pkg *types.Package
	if callee := c.StaticCallee(); callee != nil && callee.Pkg != nil {
		pkg = callee.Pkg.Pkg
	} else if f.fn.Pkg != nil {
		pkg = f.fn.Pkg.Pkg
	} else if u.fn.Pkg != nil {
		pkg = u.fn.Pkg.Pkg
	}
	var calleePkg *ssa.Package
	if callee := c.StaticCallee(); callee != nil {
		calleePkg = rootFn(callee).Pkg
	}
	calleeGhosts := map[string]TV{}
	// free variables of a closure callee: bound by the MakeClosure visible at the call site (captured variables are
	// cells: the contract sees the cell's current content under the variable's name)
	freeVar := func(cur *State, n string) (TV, bool) {
		mc, ok := c.Value.(*ssa.MakeClosure)
		if !ok {
			return TV{}, false
		}
		cf, ok := mc.Fn.(*ssa.Function)
		if !ok {
			return TV{}, false
		}
		for i, fv := range cf.FreeVars {
			if fv.Name() != n || i >= len(mc.Bindings) {
				continue
			}
			bv := f.val(mc.Bindings[i], cur)
			if pt, isPtr := fv.Type().Underlying().(*types.Pointer); isPtr && bv.LV != nil {
				lv := u.loadLV(bv.LV, pt.Elem(), cur)
				return TV{T: lv.T, Ty: pt.Elem()}, true
			}
			return TV{T: bv.T, Ty: fv.Type()}, true
		}
		return TV{}, false
	}
	mkEnv := func(cur *State, extra map[string]TV) *Env {
		e := &Env{u: u, st: cur, old: pre, bound: map[string]boundVar{}, pkg: pkg, qctr: &u.qctr, fn: c.StaticCallee(), callee: true, calleeGhosts: map[string]bool{}}
		for _, g := range spec.Ghosts {
			e.calleeGhosts[g.Name] = true
		}
		e.lookup = func(e *Env, n string) (TV, bool) {
			if strings.HasPrefix(n, "var_") && len(n) > 4 {
				n = n[4:] // the callee's program variable of that name, not the contract word
			} else if extra != nil {
				if tv, ok := extra[n]; ok {
					return tv, true
				}
			}
			if tv, ok := argMap[n]; ok {
				return tv, true
			}
			if strings.HasSuffix(n, "0") {
				if tv, ok := argMap[n[:len(n)-1]]; ok {
					return tv, true
				}
			}
			if tv, ok := freeVar(e.st, n); ok {
				return tv, true
			}
			// ghost variables local to the callee's contract: unknown to the caller (an arbitrary value per call)
			for _, g := range spec.Ghosts {
				if g.Name == n {
					if tv, ok := calleeGhosts[n]; ok {
						return tv, true
					}
					srt, ty := e.resolveType(g.Type)
					tv := TV{T: u.defs.Fresh("cg_"+n, srt), Ty: ty}
					calleeGhosts[n] = tv
					return tv, true
				}
			}
			// package-level variables of the callee's (or caller's) package
			for _, sp := range []*ssa.Package{calleePkg, f.fn.Pkg, rootFn(f.fn).Pkg} {
				if sp == nil {
					continue
				}
				if g, ok := sp.Members[n].(*ssa.Global); ok {
					gv := f.val(g, e.st)
					lv := u.loadLV(gv.LV, gv.LV.Ty, e.st)
					return TV{T: lv.T, Ty: gv.LV.Ty}, true
				}
			}
			return TV{}, false
		}
		return e
	}
	// preconditions
	env := mkEnv(st, nil)
	for i, r := range spec.Requires {
		t, ok := env.Bool(r.E, r.Line)
		if !ok {
			continue
		}
		if r.Kind == "requires-inv" {
			u.assume(st, t)
			u.AssumedUse["object invariant of "+name+": "+r.Label] = true
			continue
		}
		lab := r.Label
		if lab == "" {
			lab = fmt.Sprintf("%d", i+1)
		}
		o := u.addObl(st, "pre@"+anchor, lab, t, r)
		// a precondition labelled with properties ([C04,C05:label]) belongs to those properties; an unlabelled one to every
		// property the calling unit serves
		if len(r.Props) == 0 && len(u.spec.Props) > 0 {
			o.Props = u.spec.Props
		}
		u.assume(st, t)
	}
	// hand-over clauses
	addrOfArg := func(p string) (Term, bool) {
		tv, ok := argMap[p]
		if !ok {
			return Term{}, false
		}
		switch tv.T.Sort {
		case SSlice:
			return App("s_arr", SInt, tv.T), true
		case SInt:
			return tv.T, true
		case SIface:
			return App("iint", SInt, tv.T), true
		}
		return Term{}, false
	}
	for _, p := range spec.Consumes {
		if a, ok := addrOfArg(p); ok {
			u.addObl(st, "once@"+anchor, p+":the-object-handed-over-was-not-handed-over-before", Not(Select(u.handoffGet(st, ghConsumed), a)), nil)
			u.handoffAdd(st, ghConsumed, a)
		}
	}
	for _, p := range spec.Retains {
		if tv, ok := argMap[p]; ok && tv.T.Sort == SSlice {
			u.handoffAdd(st, ghRetained, App("s_arr", SInt, tv.T))
		}
	}
	// recursion: termination measure
	if spec == u.spec && spec.Decr != nil && u.entryMeasure.S != "" {
		tv, ok := env.Term(spec.Decr.E, spec.Decr.Line)
		if ok {
			u.addObl(st, "term@"+anchor, "decreases", And(App("<=", SBool, IntLit(0), u.entryMeasure), App("<", SBool, tv.T, u.entryMeasure)), spec.Decr)
		}
	}
	// frame: ghosts named in modifies are forgotten; the heap is forgotten entirely (no frame clause), except the
	// preserved classes (preserves), or only in the listed classes (modifies)
	for _, m := range spec.Modifies {
		if strings.HasPrefix(m, "$") {
			gt, ok := u.eng.GlobalGhosts[m]
			if !ok {
				u.errorf("%s: modifies unknown ghost %s", spec.Name, m)
				continue
			}
			srt, _ := env.resolveType(gt)
			if _, has := st.ghost[m]; !has {
				pre.ghost[m] = u.ghostInit(m, srt)
			}
			st.ghost[m] = u.defs.Fresh("gh_"+m, srt)
		}
	}
	if spec.FrameAssumed {
		u.AssumedUse["frame of "+name+" (preserves "+strings.Join(spec.Preserves, ", ")+") is assumed"] = true
	}
	u.eventWhy = "call to " + name
	switch {
	case len(spec.Preserves) > 0:
		u.havocAllExcept(st, itemsMatchers(spec.Preserves, spec.Pkg))
		f.havocClosureArgs(args, st)
	case !spec.ModSet && !spec.Pure:
		u.havocAll(st)
		f.havocClosureArgs(args, st)
	default:
		u.havocOnly(st, itemsMatchers(spec.Modifies, spec.Pkg))
		// callbacks passed to the callee may run: forget the captured variables they assign
		f.havocClosureArgs(args, st)
	}
	// ghost effects declared by the contract: "ensures" may mention ghost variables of the caller by name ($held etc.)
	res := resultVal(u, st, sig, "r_"+sanitize(anchor))
	extra := map[string]TV{}
	rt := sig.Results()
	if rt.Len() == 1 {
		extra["result"] = TV{T: res.T, Ty: rt.At(0).Type()}
		extra["ret0"] = extra["result"]
		if n := rt.At(0).Name(); n != "" {
			extra[n] = extra["result"]
		}
	} else {
		for i := 0; i < rt.Len(); i++ {
			tv := TV{T: res.Tup[i].T, Ty: rt.At(i).Type()}
			extra[fmt.Sprintf("ret%d", i)] = tv
			if n := rt.At(i).Name(); n != "" {
				extra[n] = tv
			}
		}
	}
	env = mkEnv(st, extra)
	var posts []Term
	for _, en := range spec.Ensures {
		t, ok := env.Bool(en.E, en.Line)
		if ok {
			posts = append(posts, t)
		}
	}
	u.assume(st, And(posts...))
	return res
}

// resolveModClasses maps a modifies item to heap class names known to the unit.
// modMatchers maps a modifies/preserves item to class matchers.
//
//	map[K]V -> the three map classes; []T -> Elem.T; Type.field / pkg.Type.field / Type.* ; raw class names (F. Elem. Map* Cell. G.)
func modMatchers(item, pkg string) []matcher {
	item = canonAliases(item)
	if strings.HasPrefix(item, "map[") {
		if end := strings.Index(item, "]"); end > 0 {
			k, v := sanitize(item[4:end]), sanitize(item[end+1:])
			return []matcher{{exact: "MapDom." + k + "." + v}, {exact: "MapVal." + k + "." + v}, {exact: "MapLen." + k + "." + v}}
		}
	}
	if strings.HasPrefix(item, "[]") {
		return []matcher{{exact: "Elem." + sanitize(item[2:])}}
	}
	if strings.HasPrefix(item, "F.") || strings.HasPrefix(item, "Elem.") || strings.HasPrefix(item, "Map") || strings.HasPrefix(item, "Cell.") || strings.HasPrefix(item, "G.") || strings.HasPrefix(item, "Enc.") {
		if strings.HasSuffix(item, "*") {
			return []matcher{{prefix: strings.TrimSuffix(item, "*")}}
		}
		return []matcher{{exact: item}}
	}
	parts := strings.Split(item, ".")
	switch len(parts) {
	case 2:
		item = "F." + pkg + "." + parts[0] + "." + parts[1]
	case 3:
		item = "F." + item
	}
	if strings.HasSuffix(item, ".*") {
		return []matcher{{prefix: strings.TrimSuffix(item, "*")}}
	}
	// a field that is itself a value struct is stored under Type.field.sub: cover both
	return []matcher{{exact: item}, {prefix: item + "."}}
}

func itemsMatchers(items []string, pkg string) []matcher {
	var out []matcher
	for _, it := range items {
		if strings.HasPrefix(it, "$") {
			continue
		}
		out = append(out, modMatchers(it, pkg)...)
	}
	return out
}

// resolveModClasses lists the classes known so far that an item selects.
func (u *Unit) resolveModClasses(item, pkg string) []string {
	var out []string
	ms := modMatchers(item, pkg)
	for c := range u.classSort {
		if matchAny(ms, c) {
			out = append(out, c)
		}
	}
	for _, m := range ms {
		if m.exact != "" {
			found := false
			for _, c := range out {
				if c == m.exact {
					found = true
				}
			}
			if !found {
				out = append(out, m.exact)
			}
		}
	}
	return out
}

// ---------------------------------------------------------------------------
// defers, go

func (f *Frame) runDefers(st *State) {
	u := f.u
	for i := len(st.defers) - 1; i >= 0; i-- {
		d := st.defers[i]
		if d.frame != f {
			continue
		}
		if d.guard.S == "true" {
			d.frame.execCall(d.call, d.call.Common(), st)
			continue
		}
		yes := st.clone()
		u.assume(yes, d.guard)
		d.frame.execCall(d.call, d.call.Common(), yes)
		no := st.clone()
		u.assume(no, Not(d.guard))
		m := u.mergeStates([]*State{yes, no})
		*st = *m
	}
	// drop this frame's defers
	var rest []deferEntry
	for _, d := range st.defers {
		if d.frame != f {
			rest = append(rest, d)
		}
	}
	st.defers = rest
}

func (f *Frame) execGo(ins *ssa.Go, st *State) {
	u := f.u
	c := ins.Common()
	u.abstractf("%s: go statement at %s: goroutine body not interleaved (cells it writes are havoced)", u.name, shortPos(u.eng.Fset, ins.Pos()))
	args := f.callArgs(c, st)
	var fns []Val
	for _, a := range args {
		if a.Fn != nil {
			fns = append(fns, a)
		}
	}
	if fv := f.val(c.Value, st); fv.Fn != nil {
		fns = append(fns, fv)
	}
	f.havocClosureArgs(fns, st)
}

// ---------------------------------------------------------------------------
// builtins

func (f *Frame) execBuiltin(b *ssa.Builtin, c *ssa.CallCommon, args []Val, st *State, ins ssa.Instruction) Val {
	u := f.u
	switch b.Name() {
	case "len":
		x := args[0]
		switch t := c.Args[0].Type().Underlying().(type) {
		case *types.Basic:
			return Val{T: App("str.len", SInt, x.T)}
		case *types.Slice:
			return Val{T: App("s_len", SInt, x.T)}
		case *types.Map:
			cls := "MapLen." + mapDomClass(t)[7:]
			arr := u.heapGet(st, cls, ArraySort(SInt, SInt))
			r := u.defs.Define("maplen", Select(arr, x.T))
			u.assume(st, App(">=", SBool, r, IntLit(0)))
			return Val{T: r}
		case *types.Pointer:
			if at, ok := t.Elem().Underlying().(*types.Array); ok {
				return Val{T: IntLit(at.Len())}
			}
		case *types.Array:
			return Val{T: IntLit(t.Len())}
		}
		r := u.defs.Fresh("len", SInt)
		u.assume(st, App(">=", SBool, r, IntLit(0)))
		return Val{T: r}
	case "cap":
		if args[0].T.Sort == SSlice {
			return Val{T: App("s_cap", SInt, args[0].T)}
		}
		return Val{T: u.freshOf(st, "cap", types.Typ[types.Int])}
	case "append":
		return f.execAppend(c, args, st)
	case "delete":
		mt := c.Args[0].Type().Underlying().(*types.Map)
		u.mapDelete(st, mt, args[0].T, args[1].T)
		return Val{}
	case "copy":
		// copy(dst, src): dst elements havoced, count returned
		if st0, ok := c.Args[0].Type().Underlying().(*types.Slice); ok {
			class := elemClass(st0.Elem())
			es := sortOf(st0.Elem())
			asort := ArraySort(SInt, ArraySort(SInt, es))
			arr := u.heapGet(st, class, asort)
			na := u.defs.Fresh("copied", ArraySort(SInt, es))
			// copy(dst, src) moves exactly n = min(len(dst), len(src)) elements: dst[j] = src[j] for j < n (memmove
			// semantics: the source values are those before the call); every other element of the array keeps its value
			var srcLen Term
			var srcElem func(j Term) Term
			switch {
			case args[1].T.Sort == SString:
				srcLen = App("str.len", SInt, args[1].T)
				srcElem = func(j Term) Term { return Select(App("str_bytes", ArraySort(SInt, SInt), args[1].T), j) }
			case args[1].T.Sort == SSlice:
				srcLen = App("s_len", SInt, args[1].T)
				srcElem = func(j Term) Term {
					return Select(Select(arr, App("s_arr", SInt, args[1].T)), App("+", SInt, App("s_off", SInt, args[1].T), j))
				}
			}
			if class == elemClass(types.Typ[types.Uint8]) {
				u.retainedWrite(st, App("s_arr", SInt, args[0].T))
			}
			n := u.defs.Fresh("ncopy", SInt)
			dOff := App("s_off", SInt, args[0].T)
			oldArr := Select(arr, App("s_arr", SInt, args[0].T))
			if srcLen.S != "" {
				dLen := App("s_len", SInt, args[0].T)
				u.assume(st, Eq(n, Ite(App("<=", SBool, dLen, srcLen), dLen, srcLen)))
				u.qctr++
				qj := Term{fmt.Sprintf("q%d_j", u.qctr), SInt}
				dEnd := u.defs.Define("copyend", App("+", SInt, dOff, n))
				rel := App("-", SInt, qj, dOff)
				u.assume(st, Term{fmt.Sprintf("(forall ((%s Int)) (! (and (=> (or (< %s %s) (>= %s %s)) (= (select %s %s) (select %s %s))) (=> (and (<= %s %s) (< %s %s)) (= (select %s %s) %s))) :pattern ((select %s %s))))",
					qj.S, qj.S, dOff.S, qj.S, dEnd.S, na.S, qj.S, oldArr.S, qj.S,
					dOff.S, qj.S, qj.S, dEnd.S, na.S, qj.S, srcElem(rel).S,
					na.S, qj.S), SBool})
			} else {
				// source of an unmodelled sort: destination elements unknown, elements outside the destination slice keep their values
				u.qctr++
				qj := Term{fmt.Sprintf("q%d_j", u.qctr), SInt}
				dEnd := App("+", SInt, dOff, App("s_len", SInt, args[0].T))
				u.assume(st, Term{fmt.Sprintf("(forall ((%s Int)) (! (=> (or (< %s %s) (>= %s %s)) (= (select %s %s) (select %s %s))) :pattern ((select %s %s))))", qj.S, qj.S, dOff.S, qj.S, dEnd.S, na.S, qj.S, oldArr.S, qj.S, na.S, qj.S), SBool})
				u.assume(st, And(App(">=", SBool, n, IntLit(0)), App("<=", SBool, n, App("s_len", SInt, args[0].T))))
			}
			u.heapSet(st, class, u.defs.Define("H_"+class, Store(arr, App("s_arr", SInt, args[0].T), na)))
			// byte buffers: the decoded-field view (Enc.*) of the destination follows the source when both
			// slices start at offset 0 of their arrays and the destination is at least as long
			if sortOf(st0.Elem()) == SInt && args[1].T.Sort == SSlice {
				whole := And(Eq(App("s_off", SInt, args[0].T), IntLit(0)), Eq(App("s_off", SInt, args[1].T), IntLit(0)), App(">=", SBool, App("s_len", SInt, args[0].T), App("s_len", SInt, args[1].T)))
				encSort := ArraySort(SInt, ArraySort(SInt, SInt))
				for _, k := range []string{"BE16", "BE32", "BE64", "LE32", "LE64"} {
					if _, known := u.classSort["Enc."+k]; !known {
						u.classSort["Enc."+k] = encSort
					}
				}
				for _, cls := range sortedKeys(u.classSort) {
					if !strings.HasPrefix(cls, "Enc.") {
						continue
					}
					srt := u.classSort[cls]
					ea := u.heapGet(st, cls, srt)
					fresh := u.defs.Fresh("copied_"+cls, arrayValSort(srt))
					// a decoded field that lies entirely before the destination slice is not touched by the copy
					if w, okw := map[string]int64{"Enc.BE16": 2, "Enc.BE32": 4, "Enc.BE64": 8, "Enc.LE32": 4, "Enc.LE64": 8}[cls]; okw {
						u.qctr++
						qp := Term{fmt.Sprintf("q%d_p", u.qctr), SInt}
						dOff := App("s_off", SInt, args[0].T)
						oldV := Select(ea, App("s_arr", SInt, args[0].T))
						u.assume(st, Term{fmt.Sprintf("(forall ((%s Int)) (! (=> (<= (+ %s %d) %s) (= (select %s %s) (select %s %s))) :pattern ((select %s %s))))", qp.S, qp.S, w, dOff.S, fresh.S, qp.S, oldV.S, qp.S, fresh.S, qp.S), SBool})
					}
					// a source of exactly the field's width copied into a destination at least that long: the field decoded
					// at the start of the destination equals the field decoded at the start of the source
					if w, okw := map[string]int64{"Enc.BE16": 2, "Enc.BE32": 4, "Enc.BE64": 8, "Enc.LE32": 4, "Enc.LE64": 8}[cls]; okw {
						srcV := Select(ea, App("s_arr", SInt, args[1].T))
						cond := And(Eq(App("s_len", SInt, args[1].T), IntLit(w)), App(">=", SBool, App("s_len", SInt, args[0].T), IntLit(w)))
						u.assume(st, Implies(cond, Eq(Select(fresh, App("s_off", SInt, args[0].T)), Select(srcV, App("s_off", SInt, args[1].T)))))
					}
					inner := Ite(whole, Select(ea, App("s_arr", SInt, args[1].T)), fresh)
					u.heapSet(st, cls, u.defs.Define("H_"+cls, Store(ea, App("s_arr", SInt, args[0].T), inner)))
				}
			}
			return Val{T: n}
		}
		return Val{T: u.freshOf(st, "copy", types.Typ[types.Int])}
	case "min", "max":
		acc := args[0].T
		for _, a := range args[1:] {
			if b.Name() == "min" {
				acc = Ite(App("<=", SBool, acc, a.T), acc, a.T)
			} else {
				acc = Ite(App(">=", SBool, acc, a.T), acc, a.T)
			}
		}
		return Val{T: u.defs.Define(b.Name(), acc)}
	case "print", "println", "close", "clear":
		return Val{}
	case "recover":
		return Val{T: Term{"nil_iface", SIface}}
	}
	u.abstractf("%s: builtin %s unmodelled", u.name, b.Name())
	return resultVal(u, st, c.Signature(), "builtin")
}

// append(s, elems...): result is a fresh-or-same array holding the old elements followed by the new ones.
func (f *Frame) execAppend(c *ssa.CallCommon, args []Val, st *State) Val {
	u := f.u
	s := args[0].T
	sl, ok := c.Args[0].Type().Underlying().(*types.Slice)
	if !ok {
		return Val{T: u.freshOf(st, "append", c.Args[0].Type())}
	}
	class := elemClass(sl.Elem())
	es := sortOf(sl.Elem())
	asort := ArraySort(SInt, ArraySort(SInt, es))
	arr := u.heapGet(st, class, asort)
	add := args[1].T
	var addLen Term
	var addElem func(j Term) Term
	if add.Sort == SString { // append([]byte, string...)
		addLen = App("str.len", SInt, add)
		addElem = func(j Term) Term { return App("str.to_code", SInt, App("str.at", SString, add, j)) }
	} else {
		addLen = App("s_len", SInt, add)
		addElem = func(j Term) Term {
			return Select(Select(arr, App("s_arr", SInt, add)), App("sl_idx", SInt, add, j))
		}
	}
	// result: Go's two cases. With spare capacity the old backing array is extended in place (the result aliases it and the
	// new elements overwrite whatever other slices of that array see beyond len(s)); otherwise a fresh array is allocated.
	addr := u.newAddr(st, "append")
	oldLen := App("s_len", SInt, s)
	oldArrID := App("s_arr", SInt, s)
	oldOff := App("s_off", SInt, s)
	newLen := u.defs.Define("applen", App("+", SInt, oldLen, addLen))
	inPlace := u.defs.Define("appinplace", And(Not(Eq(oldArrID, IntLit(0))), App("<=", SBool, newLen, App("s_cap", SInt, s))))
	content := u.defs.Fresh("appcontent", ArraySort(SInt, es))
	u.qctr++
	q := fmt.Sprintf("q%d_j", u.qctr)
	qj := Term{q, SInt}
	oldElem := Select(Select(arr, oldArrID), App("sl_idx", SInt, s, qj))
	oldAt := Select(Select(arr, oldArrID), qj)
	lo := u.defs.Define("applo", App("+", SInt, oldOff, oldLen))
	hi := u.defs.Define("apphi", App("+", SInt, oldOff, newLen))
	fact := fmt.Sprintf("(forall ((%s Int)) (! (and "+
		"(=> (and (not %s) (<= 0 %s) (< %s %s)) (= (select %s %s) %s)) "+
		"(=> (and (not %s) (<= %s %s) (< %s %s)) (= (select %s %s) %s)) "+
		"(=> (and %s (<= %s %s) (< %s %s)) (= (select %s %s) %s)) "+
		"(=> (and %s (not (and (<= %s %s) (< %s %s)))) (= (select %s %s) %s))"+
		") :pattern ((select %s %s))))",
		q,
		inPlace.S, q, q, oldLen.S, content.S, q, oldElem.S,
		inPlace.S, oldLen.S, q, q, newLen.S, content.S, q, addElem(App("-", SInt, qj, oldLen)).S,
		inPlace.S, lo.S, q, q, hi.S, content.S, q, addElem(App("-", SInt, qj, lo)).S,
		inPlace.S, lo.S, q, q, hi.S, content.S, q, oldAt.S,
		content.S, q)
	u.assume(st, Term{fact, SBool})
	resArr := u.defs.Define("apparr", Ite(inPlace, oldArrID, addr))
	resOff := u.defs.Define("appoff", Ite(inPlace, oldOff, IntLit(0)))
	u.heapSet(st, class, u.defs.Define("H_"+class, Store(arr, resArr, content)))
	if bt, isB := sl.Elem().Underlying().(*types.Basic); isB && bt.Kind() == types.Uint8 {
		// byte buffers: the decoded-field view of the result array is unknown (an in-place append may overwrite encoded fields)
		for _, cls := range sortedKeys(u.classSort) {
			if !strings.HasPrefix(cls, "Enc.") {
				continue
			}
			srt := u.classSort[cls]
			ea := u.heapGet(st, cls, srt)
			fresh := u.defs.Fresh("app_"+cls, arrayValSort(srt))
			// a decoded field that lies entirely inside the old elements keeps its value: at the same position of the
			// old array when the append is in place, at the position relative to the old offset when it reallocates
			if w, okw := map[string]int64{"Enc.BE16": 2, "Enc.BE32": 4, "Enc.BE64": 8, "Enc.LE32": 4, "Enc.LE64": 8}[cls]; okw {
				u.qctr++
				qp := fmt.Sprintf("q%d_p", u.qctr)
				oldV := Select(ea, oldArrID)
				u.assume(st, Term{fmt.Sprintf("(forall ((%s Int)) (! (and "+
					"(=> (and %s (<= %s %s) (<= (+ %s %d) %s)) (= (select %s %s) (select %s %s))) "+
					"(=> (and (not %s) (<= 0 %s) (<= (+ %s %d) %s)) (= (select %s %s) (select %s (+ %s %s))))"+
					") :pattern ((select %s %s))))",
					qp,
					inPlace.S, oldOff.S, qp, qp, w, lo.S, fresh.S, qp, oldV.S, qp,
					inPlace.S, qp, qp, w, oldLen.S, fresh.S, qp, oldV.S, oldOff.S, qp,
					fresh.S, qp), SBool})
			}
			u.heapSet(st, cls, u.defs.Define("H_"+cls, Store(ea, resArr, fresh)))
		}
	}
	capF := u.defs.Fresh("appcap", SInt)
	u.assume(st, App(">=", SBool, capF, newLen))
	capT := u.defs.Define("appcapr", Ite(inPlace, App("s_cap", SInt, s), capF))
	return Val{T: u.defs.Define("appended", App("mk_slice", SSlice, resArr, resOff, newLen, capT))}
}

// ---------------------------------------------------------------------------
// at-points

func (f *Frame) atPoint(where string, st *State, b *ssa.BasicBlock, idx int) {
	u := f.u
	if u.spec == nil || where == "" {
		return
	}
	key := where
	if f.prefix != "" {
		key = f.prefix + " " + where
	}
	for _, at := range u.spec.Ats {
		if at.Where != key && !wildcardAnchor(at.Where, key) {
			continue
		}
		at.hit = true
		for idx >= 0 && idx < len(b.Instrs) {
			if _, isDbg := b.Instrs[idx].(*ssa.DebugRef); isDbg {
				idx++
			} else {
				break
			}
		}
		var extra map[string]TV
		if f.lastCallResult != nil {
			extra = map[string]TV{}
			if len(f.lastCallResult.Tup) > 0 {
				for k, tv := range f.lastCallResult.Tup {
					extra[fmt.Sprintf("$result%d", k)] = TV{T: tv.T, Ty: tv.Ty}
				}
			} else if f.lastCallResult.T.S != "" {
				extra["$result"] = TV{T: f.lastCallResult.T, Ty: f.lastCallResult.Ty}
			}
		}
		if where == "return" && f.pendingRet != nil {
			if extra == nil {
				extra = map[string]TV{}
			}
			for k, rv := range f.pendingRet {
				if rv.T.S == "" {
					continue
				}
				ty := rv.Ty
				if ty == nil && f.fn.Signature.Results().Len() > k {
					ty = f.fn.Signature.Results().At(k).Type()
				}
				extra[fmt.Sprintf("ret%d", k)] = TV{T: rv.T, Ty: ty}
				if len(f.pendingRet) == 1 {
					extra["result"] = TV{T: rv.T, Ty: ty}
				}
			}
		}
		// range indices of the enclosing range loops: $i<ordinal>
		for _, o := range f.loops {
			if !o.body[b] {
				continue
			}
			for _, ins := range o.head.Instrs {
				p, ok := ins.(*ssa.Phi)
				if !ok {
					break
				}
				if v, has := f.vals[p]; has && p.Comment == "rangeindex" {
					if extra == nil {
						extra = map[string]TV{}
					}
					extra[fmt.Sprintf("$i%d", o.ord)] = TV{T: v.T, Ty: p.Type()}
				}
			}
		}
		if f.beforeArgs != nil {
			// callee parameter names are visible at "before" anchors, but never shadow the caller's own variables
			if extra == nil {
				extra = map[string]TV{}
			}
			for k, v := range f.beforeArgs {
				if strings.HasPrefix(k, "$") {
					extra[k] = v
				} else if _, _, found := f.lookupName(k, b, idx); !found {
					// captured variables of a closure unit are the caller's own variables too
					captured := false
					for _, fv := range f.fn.FreeVars {
						if fv.Name() == k {
							captured = true
						}
					}
					if !captured {
						extra[k] = v
					}
				}
			}
		}
		env := f.pointEnv(st, b, idx, extra)
		for i, c := range at.Clauses {
			switch c.Kind {
			case "assert":
				t, ok := env.Bool(c.E, c.Line)
				if !ok {
					continue
				}
				lab := c.Label
				if lab == "" {
					lab = fmt.Sprintf("%s/%d", strings.ReplaceAll(where, " ", "_"), i+1)
				} else if at.Where != key {
					// wildcard anchor: name the site, so that every site has its own stable obligation
					site := strings.TrimSuffix(strings.TrimPrefix(where, "call "), " before")
					lab = lab + "@" + site
				}
				u.addObl(st, "assert", lab, t, c)
				u.assume(st, t)
			case "assume":
				t, ok := env.Bool(c.E, c.Line)
				if ok {
					u.assume(st, t)
					u.AssumedUse["assume@"+u.name+":"+c.Text] = true
				}
			case "ghostset":
				tv, ok := env.Term(c.E, c.Line)
				if ok {
					st.ghost[c.Ghost] = u.defs.Define("g_"+c.Ghost, tv.T)
				}
			case "use":
				f.useLemma(c, env, st)
			}
		}
	}
}

// useLemma instantiates a lemma: "use name(args)".
func (f *Frame) useLemma(c *Clause, env *Env, st *State) {
	u := f.u
	call, ok := c.E.(*ECall)
	if !ok {
		u.errorf("%s: use needs lemma(args)", c.Line)
		return
	}
	lm, ok := u.eng.Lemmas[call.Fn]
	if !ok {
		u.errorf("%s: unknown lemma %s", c.Line, call.Fn)
		return
	}
	if len(call.Args) != len(lm.Params) {
		u.errorf("%s: lemma %s expects %d args", c.Line, call.Fn, len(lm.Params))
		return
	}
	n := env
	for i, p := range lm.Params {
		tv, ok := env.Term(call.Args[i], c.Line)
		if !ok {
			return
		}
		n = n.bind(p.Name, boundVar{T: tv.T, Ty: tv.Ty})
	}
	// lemma bodies are closed over their parameters: no program names
	saved := n.lookup
	n.lookup = nil
	t, ok := n.Bool(lm.Body, c.Line)
	n.lookup = saved
	if ok {
		u.assume(st, t)
		if lm.Assumed {
			u.AssumedUse["axiom lemma "+call.Fn+": "+lm.Text] = true
		} else {
			u.LemmasUsed[call.Fn] = true
		}
	}
}

// callFnValue invokes a function-valued Val with the given arguments by inlining its body; with several
// alternatives (function-valued phi) the state is split per alternative and merged again.
func (f *Frame) callFnValue(fv Val, args []Val, st *State, sig *types.Signature, hint string) (Val, bool) {
	u := f.u
	alts := fv.fnAlts()
	if len(alts) == 0 || u.inlineDepth >= maxInlineDepth {
		return Val{}, false
	}
	for _, a := range alts {
		if len(a.Fn.Blocks) == 0 {
			return Val{}, false
		}
	}
	if len(alts) == 1 && alts[0].Cond.S == "true" {
		return f.inlineOrContract(alts[0].Fn, alts[0].Env, args, st, sig, hint), true
	}
	var sts []*State
	var rets []Val
	for _, a := range alts {
		b := st.clone()
		u.assume(b, a.Cond)
		r := f.inlineOrContract(a.Fn, a.Env, args, b, sig, hint)
		sts = append(sts, b)
		rets = append(rets, r)
	}
	merged := u.mergeStates(sts)
	var res Val
	for i := len(rets) - 1; i >= 0; i-- {
		if i == len(rets)-1 {
			res = rets[i]
		} else if rets[i].T.S != "" && res.T.S != "" {
			res = Val{T: Ite(sts[i].pc, rets[i].T, res.T), Ty: rets[i].Ty}
		}
	}
	if res.T.S != "" {
		res.T = u.defs.Define("altret", res.T)
	}
	*st = *merged
	return res, true
}

// inlineOrContract uses the closure's own contract when it has one, else inlines it.
func (f *Frame) inlineOrContract(target *ssa.Function, env []Val, args []Val, st *State, sig *types.Signature, hint string) Val {
	u := f.u
	if spec, ok := u.eng.contractFor(canonFn(target), u.pkgName()); ok && !spec.Inline {
		cc := &ssa.CallCommon{Value: target}
		return f.applyContract(spec, canonFn(target), cc, target.Signature, args, st, hint)
	}
	return f.inline(target, env, args, st)
}

// havocGhosts forgets every global ghost variable except the held-lock set (callees without a contract are
// assumed lock-neutral; everything else they may have changed).
func (f *Frame) havocGhosts(st *State) {
	u := f.u
	env := &Env{u: u, st: st, bound: map[string]boundVar{}, qctr: &u.qctr}
	for _, g := range sortedKeys(u.eng.GlobalGhosts) {
		if g == "$held" {
			continue
		}
		srt, _ := env.resolveType(u.eng.GlobalGhosts[g])
		if _, has := st.ghost[g]; !has {
			u.ghostInit(g, srt)
		}
		st.ghost[g] = u.defs.Fresh("gx_"+g, srt)
	}
}

// wildcardAnchor: "call GET#*" matches "call GET#3", "call GET#* before" matches "call GET#3 before" (same closure prefix).
func wildcardAnchor(pattern, key string) bool {
	i := strings.Index(pattern, "#*")
	if i < 0 {
		return false
	}
	head, tail := pattern[:i+1], pattern[i+2:]
	if !strings.HasPrefix(key, head) || !strings.HasSuffix(key, tail) {
		return false
	}
	mid := key[len(head) : len(key)-len(tail)]
	if mid == "" {
		return false
	}
	for _, c := range mid {
		if c < '0' || c > '9' {
			return false
		}
	}
	return true
}
