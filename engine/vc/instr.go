package vc

import (
	"fmt"
	"go/token"
	"go/types"

	"golang.org/x/tools/go/ssa"
)

func (f *Frame) set(v ssa.Value, x Val) {
	if x.Ty == nil {
		x.Ty = v.Type()
	}
	f.vals[v] = x
}

// allocPromotable reports whether an Alloc can be kept as a local cell (never escapes except into closures).
func allocPromotable(a *ssa.Alloc) bool {
	elem := a.Type().(*types.Pointer).Elem()
	switch elem.Underlying().(type) {
	case *types.Struct, *types.Array:
		return false
	}
	refs := a.Referrers()
	if refs == nil {
		return false
	}
	for _, r := range *refs {
		switch r := r.(type) {
		case *ssa.UnOp:
			if r.Op != token.MUL {
				return false
			}
		case *ssa.Store:
			if r.Addr != a {
				return false
			}
		case *ssa.MakeClosure, *ssa.DebugRef:
		default:
			return false
		}
	}
	return true
}

func (f *Frame) execInstr(ins ssa.Instruction, st *State, b *ssa.BasicBlock, idx int) {
	u := f.u
	switch ins := ins.(type) {
	case *ssa.Alloc:
		elem := ins.Type().(*types.Pointer).Elem()
		if allocPromotable(ins) {
			u.cellCtr++
			c := &Cell{Alloc: ins, Name: ins.Comment, Sort: sortOf(elem), Ty: elem, ID: u.cellCtr}
			st.cells[c] = zeroOf(c.Sort)
			f.set(ins, Val{LV: &LValue{Kind: "cell", Cell: c, Sort: c.Sort, Ty: elem}, T: IntLit(0)})
			return
		}
		addr := u.newAddr(st, "new_"+ins.Comment)
		switch et := elem.Underlying().(type) {
		case *types.Struct:
			structFields(et, nil, func(path []string, ty types.Type) {
				class := fieldClass(elem, path)
				asort := ArraySort(SInt, sortOf(ty))
				arr := u.heapGet(st, class, asort)
				u.heapSet(st, class, u.defs.Define("H_"+class, Store(arr, addr, zeroOf(sortOf(ty)))))
			})
		case *types.Array:
			// array object: elements live in Elem class under array id = addr
			class := elemClass(et.Elem())
			es := sortOf(et.Elem())
			asort := ArraySort(SInt, ArraySort(SInt, es))
			arr := u.heapGet(st, class, asort)
			u.heapSet(st, class, u.defs.Define("H_"+class, Store(arr, addr, zeroOf(ArraySort(SInt, es)))))
		default:
			class := cellClass(elem)
			asort := ArraySort(SInt, sortOf(elem))
			arr := u.heapGet(st, class, asort)
			u.heapSet(st, class, u.defs.Define("H_"+class, Store(arr, addr, zeroOf(sortOf(elem)))))
		}
		f.set(ins, Val{T: addr})
	case *ssa.FieldAddr:
		base := f.val(ins.X, st)
		pt := ins.X.Type().Underlying().(*types.Pointer)
		stt := pt.Elem().Underlying().(*types.Struct)
		fl := stt.Field(ins.Field)
		var lv *LValue
		if base.LV != nil && base.LV.Kind == "field" && isStructType(base.LV.Ty) {
			// nested value struct
			path := append(append([]string{}, base.LV.Path...), fl.Name())
			lv = &LValue{Kind: "field", Base: base.LV.Base, Owner: base.LV.Owner, Path: path, Ty: fl.Type()}
		} else {
			lv = &LValue{Kind: "field", Base: base.T, Owner: pt.Elem(), Path: []string{fl.Name()}, Ty: fl.Type()}
		}
		lv.Class = fieldClass(lv.Owner, lv.Path)
		lv.Sort = sortOf(fl.Type())
		fv := Val{LV: lv}
		if _, isStruct := fl.Type().Underlying().(*types.Struct); isStruct {
			// identity of an embedded value struct (e.g. a sync.Mutex field): address derived from the owner
			fv.T = u.defs.Define("fld_"+fl.Name(), u.fieldAddrTerm(lv.Base, fl.Type(), len(lv.Path), ins.Field))
			fv.LV = lv
		}
		f.set(ins, fv)
		f.guardCheck(ins, lv, st)
	case *ssa.IndexAddr:
		base := f.val(ins.X, st)
		i := f.val(ins.Index, st).T
		switch t := ins.X.Type().Underlying().(type) {
		case *types.Slice:
			if u.safe["index"] {
				u.addObl(st, "safe:index", f.siteLabel("index", ins), And(App("<=", SBool, IntLit(0), i), App("<", SBool, i, App("s_len", SInt, base.T))), nil)
			}
			lv := &LValue{Kind: "elem", Class: elemClass(t.Elem()), Sort: sortOf(t.Elem()), Base: App("s_arr", SInt, base.T), Index: App("sl_idx", SInt, base.T, i), Ty: t.Elem()}
			f.set(ins, Val{LV: lv})
		case *types.Pointer: // pointer to array
			at := t.Elem().Underlying().(*types.Array)
			if u.safe["index"] {
				u.addObl(st, "safe:index", f.siteLabel("index", ins), And(App("<=", SBool, IntLit(0), i), App("<", SBool, i, IntLit(at.Len()))), nil)
			}
			arrID := base.T
			lv := &LValue{Kind: "elem", Class: elemClass(at.Elem()), Sort: sortOf(at.Elem()), Base: arrID, Index: i, Ty: at.Elem()}
			f.set(ins, Val{LV: lv})
		default:
			f.set(ins, Val{T: u.freshOf(st, "idxaddr", ins.Type())})
		}
	case *ssa.UnOp:
		f.execUnOp(ins, st)
	case *ssa.BinOp:
		f.execBinOp(ins, st)
	case *ssa.Store:
		p := f.val(ins.Addr, st)
		v := f.val(ins.Val, st)
		f.store(p, v, ins.Val.Type(), st)
	case *ssa.Call:
		f.beforeArgs = f.namedArgs(ins.Common(), st)
		f.atPoint(f.callOrd[ins]+" before", st, b, idx)
		f.beforeArgs = nil
		res := f.execCall(ins, ins.Common(), st)
		if res.Ty == nil && len(res.Tup) == 0 {
			res.Ty = ins.Type()
		}
		f.set(ins, res)
		f.lastCallResult = &res
		f.atPoint(f.callOrd[ins], st, b, idx+1)
		f.lastCallResult = nil
	case *ssa.Defer:
		st.defers = append(st.defers, deferEntry{guard: True, call: ins, frame: f})
	case *ssa.Go:
		f.atPoint(f.callOrd[ins]+" before", st, b, idx)
		f.execGo(ins, st)
		f.atPoint(f.callOrd[ins], st, b, idx+1)
	case *ssa.MakeClosure:
		var env []Val
		for _, bnd := range ins.Bindings {
			env = append(env, f.val(bnd, st))
		}
		f.set(ins, Val{Fn: ins.Fn.(*ssa.Function), Env: env, T: u.newAddr(st, "closure")})
	case *ssa.MakeInterface:
		x := f.val(ins.X, st)
		nv := Val{T: u.defs.Define("mkif", u.boxIface(x, ins.X.Type())), Fn: x.Fn, Env: x.Env}
		if _, isIface := ins.X.Type().Underlying().(*types.Interface); !isIface {
			xc := x
			nv.Conc, nv.ConcVal = ins.X.Type(), &xc
		} else {
			nv.Conc, nv.ConcVal = x.Conc, x.ConcVal
		}
		f.set(ins, nv)
	case *ssa.ChangeInterface:
		f.set(ins, f.val(ins.X, st))
	case *ssa.ChangeType:
		x := f.val(ins.X, st)
		x.Ty = ins.Type()
		f.set(ins, x)
	case *ssa.Convert:
		f.execConvert(ins, st)
	case *ssa.TypeAssert:
		f.execTypeAssert(ins, st)
	case *ssa.Extract:
		t := f.val(ins.Tuple, st)
		if ins.Index < len(t.Tup) {
			v := t.Tup[ins.Index]
			v.Ty = ins.Type()
			f.set(ins, v)
		} else {
			f.set(ins, Val{T: u.freshOf(st, "extract", ins.Type())})
		}
	case *ssa.MakeMap:
		addr := u.newAddr(st, "map")
		mt := ins.Type().Underlying().(*types.Map)
		ks := sortOf(mt.Key())
		dc := mapDomClass(mt)
		dsort := ArraySort(SInt, ArraySort(ks, SBool))
		arr := u.heapGet(st, dc, dsort)
		u.heapSet(st, dc, u.defs.Define("H_"+dc, Store(arr, addr, Term{fmt.Sprintf("((as const (Array %s Bool)) false)", ks), ArraySort(ks, SBool)})))
		f.set(ins, Val{T: addr})
	case *ssa.MakeSlice:
		n := f.val(ins.Len, st).T
		c := f.val(ins.Cap, st).T
		if u.safe["make"] {
			u.addObl(st, "safe:make", f.siteLabel("make", ins), And(App("<=", SBool, IntLit(0), n), App("<=", SBool, n, c)), nil)
		}
		addr := u.newAddr(st, "mkslice")
		et := ins.Type().Underlying().(*types.Slice).Elem()
		class := elemClass(et)
		es := sortOf(et)
		asort := ArraySort(SInt, ArraySort(SInt, es))
		arr := u.heapGet(st, class, asort)
		u.heapSet(st, class, u.defs.Define("H_"+class, Store(arr, addr, zeroOf(ArraySort(SInt, es)))))
		f.set(ins, Val{T: u.defs.Define("slice", App("mk_slice", SSlice, addr, IntLit(0), n, c))})
	case *ssa.MakeChan:
		f.set(ins, Val{T: u.newAddr(st, "chan")})
	case *ssa.Slice:
		f.execSlice(ins, st)
	case *ssa.Field:
		x := f.val(ins.X, st)
		stt := ins.X.Type().Underlying().(*types.Struct)
		fl := stt.Field(ins.Field)
		if _, nested := fl.Type().Underlying().(*types.Struct); nested {
			// nested struct value: fresh id with projected fields
			v := u.defs.Fresh("sv", SInt)
			var facts []Term
			structFields(fl.Type().Underlying().(*types.Struct), nil, func(path []string, ty types.Type) {
				outer := u.valueFieldFun(ins.X.Type(), append([]string{fl.Name()}, path...), ty)
				inner := u.valueFieldFun(fl.Type(), path, ty)
				facts = append(facts, Eq(App(inner, sortOf(ty), v), App(outer, sortOf(ty), x.T)))
			})
			u.assume(st, And(facts...))
			f.set(ins, Val{T: v})
			return
		}
		fn := u.valueFieldFun(ins.X.Type(), []string{fl.Name()}, fl.Type())
		f.set(ins, Val{T: App(fn, sortOf(fl.Type()), x.T)})
	case *ssa.Index:
		x := f.val(ins.X, st)
		i := f.val(ins.Index, st).T
		if x.T.Sort == SString {
			if u.safe["index"] {
				u.addObl(st, "safe:index", f.siteLabel("index", ins), And(App("<=", SBool, IntLit(0), i), App("<", SBool, i, App("str.len", SInt, x.T))), nil)
			}
			f.set(ins, Val{T: App("str.to_code", SInt, App("str.at", SString, x.T, i))})
		} else {
			f.set(ins, Val{T: u.freshOf(st, "index", ins.Type())})
		}
	case *ssa.Lookup:
		f.guardUse(ins, ins.X, st)
		f.execLookup(ins, st)
	case *ssa.MapUpdate:
		f.guardUse(ins, ins.Map, st)
		f.execMapUpdate(ins, st)
	case *ssa.Range:
		f.guardUse(ins, ins.X, st)
		f.execRange(ins, st)
	case *ssa.Next:
		f.execNext(ins, st)
	case *ssa.Select:
		// nondeterministic choice
		n := len(ins.States)
		idxv := u.defs.Fresh("select_idx", SInt)
		lo := int64(0)
		if !ins.Blocking {
			lo = -1
		}
		u.assume(st, And(App("<=", SBool, IntLit(lo), idxv), App("<", SBool, idxv, IntLit(int64(n)))))
		tup := []Val{{T: idxv}, {T: u.defs.Fresh("select_ok", SBool)}}
		for _, s := range ins.States {
			if s.Dir == types.RecvOnly {
				tup = append(tup, Val{T: u.freshOf(st, "recv", s.Chan.Type().Underlying().(*types.Chan).Elem())})
			}
		}
		f.set(ins, Val{Tup: tup})
		u.abstractf("%s: select statement treated as nondeterministic choice", u.name)
	case *ssa.Send:
		// no modelled effect on the channel; the send is a program point ("send#k [before]": $arg0 = channel, $arg1 = value)
		if name, ok := f.callOrd[ins]; ok {
			f.beforeArgs = map[string]TV{
				"$arg0": {T: f.val(ins.Chan, st).T, Ty: ins.Chan.Type()},
				"$arg1": {T: f.val(ins.X, st).T, Ty: ins.X.Type()},
			}
			f.atPoint(name+" before", st, b, idx)
			f.beforeArgs = nil
			f.atPoint(name, st, b, idx+1)
		}
	case *ssa.SliceToArrayPointer, *ssa.MultiConvert:
		v := ins.(ssa.Value)
		f.set(v, Val{T: u.freshOf(st, "conv", v.Type())})
	default:
		if v, ok := ins.(ssa.Value); ok {
			f.set(v, Val{T: u.freshOf(st, "unk", v.Type())})
		}
		u.abstractf("%s: unsupported instruction %T", u.name, ins)
	}
}

// boxIface builds an interface value from a concrete value.
func (u *Unit) boxIface(x Val, t types.Type) Term {
	if _, isIface := t.Underlying().(*types.Interface); isIface {
		return x.T
	}
	id := IntLit(int64(u.eng.tids.id(t)))
	zi, zs, zb, zr := IntLit(0), StrLit(""), False, Term{"0.0", SReal}
	v := x.T
	if v.S == "" {
		v = IntLit(0)
	}
	switch v.Sort {
	case SInt:
		zi = v
	case SString:
		zs = v
	case SBool:
		zb = v
	case SReal:
		zr = v
	case SSlice:
		zi = App("box_slice", SInt, v)
	}
	return App("mk_iface", SIface, id, zi, zs, zb, zr)
}

// unboxIface extracts a concrete value of Go type t from an interface term.
func (u *Unit) unboxIface(x Term, t types.Type) Term {
	switch sortOf(t) {
	case SInt:
		return App("iint", SInt, x)
	case SString:
		return App("istr", SString, x)
	case SBool:
		return App("ibool", SBool, x)
	case SReal:
		return App("ireal", SReal, x)
	case SSlice:
		return App("unbox_slice", SSlice, App("iint", SInt, x))
	}
	return x
}

func (f *Frame) execTypeAssert(ins *ssa.TypeAssert, st *State) {
	u := f.u
	x := f.val(ins.X, st)
	_, toIface := ins.AssertedType.Underlying().(*types.Interface)
	if toIface {
		ok := u.defs.Fresh("implements", SBool)
		u.assume(st, Implies(ok, Not(Eq(x.T, Term{"nil_iface", SIface}))))
		if ins.CommaOk {
			f.set(ins, Val{Tup: []Val{{T: Ite(ok, x.T, Term{"nil_iface", SIface}), Fn: x.Fn, Env: x.Env}, {T: ok}}})
		} else {
			f.set(ins, Val{T: x.T, Fn: x.Fn, Env: x.Env})
		}
		return
	}
	id := IntLit(int64(u.eng.tids.id(ins.AssertedType)))
	ok := u.defs.Define("ta_ok", Eq(App("ityp", SInt, x.T), id))
	val := u.unboxIface(x.T, ins.AssertedType)
	if ins.CommaOk {
		r := u.defs.Define("tav", Ite(ok, val, zeroOf(sortOf(ins.AssertedType))))
		// a reference extracted from an interface value exists already: it is none of the allocations still to come
		u.assume(st, typeFacts(r, ins.AssertedType))
		u.assume(st, u.ptrBoundIn(st, r, ins.AssertedType))
		f.set(ins, Val{Tup: []Val{{T: r}, {T: ok}}})
		return
	}
	if u.safe["typeassert"] {
		u.addObl(st, "safe:typeassert", f.siteLabel("typeassert", ins), ok, nil)
	}
	u.assume(st, ok)
	r := u.defs.Define("ta", val)
	u.assume(st, typeFacts(r, ins.AssertedType))
	u.assume(st, u.ptrBoundIn(st, r, ins.AssertedType))
	f.set(ins, Val{T: r})
}

func (f *Frame) execUnOp(ins *ssa.UnOp, st *State) {
	u := f.u
	x := f.val(ins.X, st)
	switch ins.Op {
	case token.MUL: // load
		elem := ins.Type()
		v := f.load(x, elem, st)
		if v.T.S != "" {
			v.T = u.defs.Define("ld_"+ins.Name(), v.T)
			u.assume(st, typeFacts(v.T, elem))
			u.assume(st, u.ptrBoundIn(st, v.T, elem))
			// a reference read from a heap class this unit has not written yet existed before the call: it is
			// none of the unit's own allocations
			if x.LV != nil && x.LV.Class != "" && (x.LV.Kind == "field" || x.LV.Kind == "elem" || x.LV.Kind == "ptr") {
				if srt, known := u.classSort[x.LV.Class]; known {
					if cur := u.heapGet(st, x.LV.Class, srt); cur.S == u.genConst(0, x.LV.Class, srt).S {
						switch elem.Underlying().(type) {
						case *types.Pointer, *types.Map, *types.Chan:
							u.assume(st, App("<", SBool, v.T, u.allocBase))
						case *types.Slice:
							u.assume(st, App("<", SBool, App("s_arr", SInt, v.T), u.allocBase))
						}
					}
				}
			}
		}
		// assumed facts about library globals (e.g. badger.DefaultIteratorOptions)
		if g, isG := ins.X.(*ssa.Global); isG && g.Pkg != nil {
			if fact, ok := u.eng.GlobalFacts[g.Pkg.Pkg.Name()+"."+g.Name()]; ok {
				env := f.pointEnv(st, ins.Block(), -1, map[string]TV{"v": {T: v.T, Ty: elem}})
				if t, ok := env.Bool(fact, "global "+g.Name()); ok {
					u.assume(st, t)
					u.AssumedUse["global "+g.Pkg.Pkg.Name()+"."+g.Name()+" has its library default value"] = true
				}
			}
		}
		// function-valued cells
		if x.LV != nil && x.LV.Kind == "cell" && u.cellFns != nil {
			if fv, ok := u.cellFns[x.LV.Cell]; ok {
				v.Fn, v.Env = fv.Fn, fv.Env
			}
		}
		f.set(ins, v)
	case token.NOT:
		f.set(ins, Val{T: Not(x.T)})
	case token.SUB:
		f.set(ins, Val{T: App("-", x.T.Sort, x.T)})
	case token.ARROW:
		if ins.CommaOk {
			f.set(ins, Val{Tup: []Val{{T: u.freshOf(st, "recv", ins.Type().(*types.Tuple).At(0).Type())}, {T: u.defs.Fresh("recv_ok", SBool)}}})
		} else {
			f.set(ins, Val{T: u.freshOf(st, "recv", ins.Type())})
		}
	case token.XOR:
		f.set(ins, Val{T: u.freshOf(st, "bitnot", ins.Type())})
	default:
		f.set(ins, Val{T: u.freshOf(st, "unop", ins.Type())})
	}
}

func (f *Frame) execBinOp(ins *ssa.BinOp, st *State) {
	u := f.u
	x := f.val(ins.X, st)
	y := f.val(ins.Y, st)
	a, b := x.T, y.T
	xt := ins.X.Type()
	srt := sortOf(xt)
	var r Term
	cmpNil := func() (Term, bool) {
		// comparisons with nil for slices / funcs / maps / pointers / interfaces
		if srt == SSlice {
			return Eq(App("s_arr", SInt, a), App("s_arr", SInt, b)), true
		}
		return Term{}, false
	}
	switch ins.Op {
	case token.ADD:
		if srt == SString {
			r = App("str.++", SString, a, b)
		} else {
			r = App("+", srt, a, b)
		}
	case token.SUB:
		r = App("-", srt, a, b)
	case token.MUL:
		r = App("*", srt, a, b)
	case token.QUO:
		if srt == SReal {
			r = App("/", SReal, a, b)
		} else {
			if u.safe["div"] {
				u.addObl(st, "safe:div", f.siteLabel("div", ins), Not(Eq(b, IntLit(0))), nil)
			}
			r = App("go_div", SInt, a, b)
		}
	case token.REM:
		if u.safe["div"] {
			u.addObl(st, "safe:div", f.siteLabel("div", ins), Not(Eq(b, IntLit(0))), nil)
		}
		r = App("go_mod", SInt, a, b)
	case token.AND:
		r = App("bit_and", SInt, a, b)
	case token.OR:
		r = App("bit_or", SInt, a, b)
	case token.XOR:
		r = App("bit_xor", SInt, a, b)
	case token.SHL:
		r = App("bit_shl", SInt, a, b)
	case token.SHR:
		r = App("bit_shr", SInt, a, b)
	case token.AND_NOT:
		r = u.freshOf(st, "andnot", ins.Type())
	case token.EQL, token.NEQ:
		if t, ok := cmpNil(); ok {
			r = t
		} else if a.Sort != b.Sort {
			r = u.defs.Fresh("cmp", SBool)
		} else {
			r = Eq(a, b)
		}
		if ins.Op == token.NEQ {
			r = Not(r)
		}
	case token.LSS, token.LEQ, token.GTR, token.GEQ:
		if srt == SString {
			switch ins.Op {
			case token.LSS:
				r = App("str.<", SBool, a, b)
			case token.LEQ:
				r = App("str.<=", SBool, a, b)
			case token.GTR:
				r = App("str.<", SBool, b, a)
			default:
				r = App("str.<=", SBool, b, a)
			}
		} else {
			op := map[token.Token]string{token.LSS: "<", token.LEQ: "<=", token.GTR: ">", token.GEQ: ">="}[ins.Op]
			r = App(op, SBool, a, b)
		}
	default:
		r = u.freshOf(st, "binop", ins.Type())
	}
	// machine arithmetic: results of + - * on fixed-width ints are treated as mathematical; optionally prove no wrap
	if lo, hi, ok := intRange(ins.Type()); ok && (ins.Op == token.ADD || ins.Op == token.SUB || ins.Op == token.MUL) {
		r = u.defs.Define("ar_"+ins.Name(), r)
		if u.safe["ovf"] {
			u.addObl(st, "safe:ovf", ins.Name(), And(App("<=", SBool, BigIntLit(lo), r), App("<=", SBool, r, BigIntLit(hi))), nil)
		}
	}
	f.set(ins, Val{T: u.defs.Define("b_"+ins.Name(), r)})
}

func (f *Frame) execConvert(ins *ssa.Convert, st *State) {
	u := f.u
	x := f.val(ins.X, st)
	from := sortOf(ins.X.Type())
	to := sortOf(ins.Type())
	switch {
	case from == SInt && to == SInt:
		if lo, hi, ok := intRange(ins.Type()); ok && u.safe["conv"] {
			if _, isPtr := ins.X.Type().Underlying().(*types.Basic); isPtr {
				u.addObl(st, "safe:conv", f.siteLabel("conv", ins), And(App("<=", SBool, BigIntLit(lo), x.T), App("<=", SBool, x.T, BigIntLit(hi))), nil)
			}
		}
		f.set(ins, Val{T: x.T})
	case from == SInt && to == SReal:
		f.set(ins, Val{T: App("to_real", SReal, x.T)})
	case from == SReal && to == SInt:
		// Go truncates toward zero
		t := Ite(App(">=", SBool, x.T, Term{"0.0", SReal}), App("to_int", SInt, x.T), App("-", SInt, App("to_int", SInt, App("-", SReal, x.T))))
		f.set(ins, Val{T: u.defs.Define("f2i", t)})
	case from == SReal && to == SReal:
		f.set(ins, Val{T: x.T})
	case from == SString && to == SSlice:
		// []byte(s)
		addr := u.newAddr(st, "bytes")
		class := elemClass(types.Typ[types.Uint8])
		asort := ArraySort(SInt, ArraySort(SInt, SInt))
		arr := u.heapGet(st, class, asort)
		u.heapSet(st, class, u.defs.Define("H_"+class, Store(arr, addr, App("str_bytes", ArraySort(SInt, SInt), x.T))))
		n := App("str.len", SInt, x.T)
		f.set(ins, Val{T: u.defs.Define("bytes", App("mk_slice", SSlice, addr, IntLit(0), n, n))})
	case from == SSlice && to == SString:
		class := elemClass(types.Typ[types.Uint8])
		asort := ArraySort(SInt, ArraySort(SInt, SInt))
		arr := u.heapGet(st, class, asort)
		r := App("bytes_str", SString, Select(arr, App("s_arr", SInt, x.T)), App("s_off", SInt, x.T), App("s_len", SInt, x.T))
		r = u.defs.Define("str", r)
		u.assume(st, Eq(App("str.len", SInt, r), App("s_len", SInt, x.T)))
		f.set(ins, Val{T: r})
	case from == SInt && to == SString:
		// string(rune): exact for code points (ASCII range is what the repository uses)
		f.set(ins, Val{T: u.defs.Define("runestr", App("str.from_code", SString, x.T))})
	default:
		if from == to {
			f.set(ins, Val{T: x.T})
		} else {
			f.set(ins, Val{T: u.freshOf(st, "convert", ins.Type())})
		}
	}
}

func (f *Frame) execSlice(ins *ssa.Slice, st *State) {
	u := f.u
	x := f.val(ins.X, st)
	var lo, hi Term
	if ins.Low != nil {
		lo = f.val(ins.Low, st).T
	} else {
		lo = IntLit(0)
	}
	switch t := ins.X.Type().Underlying().(type) {
	case *types.Basic: // string
		if ins.High != nil {
			hi = f.val(ins.High, st).T
		} else {
			hi = App("str.len", SInt, x.T)
		}
		if u.safe["slice"] {
			u.addObl(st, "safe:slice", f.siteLabel("slice", ins), And(App("<=", SBool, IntLit(0), lo), App("<=", SBool, lo, hi), App("<=", SBool, hi, App("str.len", SInt, x.T))), nil)
		}
		f.set(ins, Val{T: u.defs.Define("substr", App("str.substr", SString, x.T, lo, App("-", SInt, hi, lo)))})
	case *types.Slice:
		if ins.High != nil {
			hi = f.val(ins.High, st).T
		} else {
			hi = App("s_len", SInt, x.T)
		}
		if u.safe["slice"] {
			u.addObl(st, "safe:slice", f.siteLabel("slice", ins), And(App("<=", SBool, IntLit(0), lo), App("<=", SBool, lo, hi), App("<=", SBool, hi, App("s_cap", SInt, x.T))), nil)
		}
		capT := App("-", SInt, App("s_cap", SInt, x.T), lo)
		if ins.Max != nil {
			capT = App("-", SInt, f.val(ins.Max, st).T, lo)
		}
		f.set(ins, Val{T: u.defs.Define("subslice", App("mk_slice", SSlice, App("s_arr", SInt, x.T), App("+", SInt, App("s_off", SInt, x.T), lo), App("-", SInt, hi, lo), capT))})
	case *types.Pointer: // *[N]T
		at := t.Elem().Underlying().(*types.Array)
		if ins.High != nil {
			hi = f.val(ins.High, st).T
		} else {
			hi = IntLit(at.Len())
		}
		f.set(ins, Val{T: u.defs.Define("arrslice", App("mk_slice", SSlice, x.T, lo, App("-", SInt, hi, lo), App("-", SInt, IntLit(at.Len()), lo)))})
	default:
		f.set(ins, Val{T: u.freshOf(st, "slice", ins.Type())})
	}
}

func (f *Frame) execLookup(ins *ssa.Lookup, st *State) {
	u := f.u
	x := f.val(ins.X, st)
	k := f.val(ins.Index, st).T
	mt, isMap := ins.X.Type().Underlying().(*types.Map)
	if !isMap { // string index
		f.set(ins, Val{T: App("str.to_code", SInt, App("str.at", SString, x.T, k))})
		return
	}
	ks, vs := sortOf(mt.Key()), sortOf(mt.Elem())
	dom := u.heapGet(st, mapDomClass(mt), ArraySort(SInt, ArraySort(ks, SBool)))
	val := u.heapGet(st, mapValClass(mt), ArraySort(SInt, ArraySort(ks, vs)))
	present := u.defs.Define("mhas", And(Not(Eq(x.T, IntLit(0))), Select(Select(dom, x.T), k)))
	v := u.defs.Define("mget", Ite(present, Select(Select(val, x.T), k), zeroOf(vs)))
	u.assume(st, typeFacts(v, mt.Elem()))
	if ins.CommaOk {
		f.set(ins, Val{Tup: []Val{{T: v, Ty: mt.Elem()}, {T: present}}})
	} else {
		f.set(ins, Val{T: v})
	}
}

func (f *Frame) execMapUpdate(ins *ssa.MapUpdate, st *State) {
	u := f.u
	m := f.val(ins.Map, st)
	k := f.val(ins.Key, st).T
	v := f.val(ins.Value, st)
	mt := ins.Map.Type().Underlying().(*types.Map)
	if u.safe["nilmap"] {
		u.addObl(st, "safe:nilmap", f.siteLabel("nilmap", ins), Not(Eq(m.T, IntLit(0))), nil)
	}
	u.mapStore(st, mt, m.T, k, v.T)
}

func (u *Unit) mapStore(st *State, mt *types.Map, m, k, v Term) {
	ks, vs := sortOf(mt.Key()), sortOf(mt.Elem())
	dc, vc := mapDomClass(mt), mapValClass(mt)
	dsort := ArraySort(SInt, ArraySort(ks, SBool))
	vsort := ArraySort(SInt, ArraySort(ks, vs))
	dom := u.heapGet(st, dc, dsort)
	val := u.heapGet(st, vc, vsort)
	if v.S == "" {
		v = u.defs.Fresh("mv", vs)
	}
	lc := "MapLen." + dc[7:]
	lens := u.heapGet(st, lc, ArraySort(SInt, SInt))
	u.heapSet(st, lc, u.defs.Define("H_"+lc, Store(lens, m, Ite(Select(Select(dom, m), k), Select(lens, m), App("+", SInt, Select(lens, m), IntLit(1))))))
	u.heapSet(st, dc, u.defs.Define("H_"+dc, Store(dom, m, Store(Select(dom, m), k, True))))
	u.heapSet(st, vc, u.defs.Define("H_"+vc, Store(val, m, Store(Select(val, m), k, v))))
}

func (u *Unit) mapDelete(st *State, mt *types.Map, m, k Term) {
	ks := sortOf(mt.Key())
	dc := mapDomClass(mt)
	dsort := ArraySort(SInt, ArraySort(ks, SBool))
	dom := u.heapGet(st, dc, dsort)
	lc := "MapLen." + dc[7:]
	lens := u.heapGet(st, lc, ArraySort(SInt, SInt))
	u.heapSet(st, lc, u.defs.Define("H_"+lc, Store(lens, m, Ite(Select(Select(dom, m), k), App("-", SInt, Select(lens, m), IntLit(1)), Select(lens, m)))))
	u.heapSet(st, dc, u.defs.Define("H_"+dc, Store(dom, m, Store(Select(dom, m), k, False))))
}

// Range over map / string: iterator with a ghost visited set.
func (f *Frame) execRange(ins *ssa.Range, st *State) {
	u := f.u
	x := f.val(ins.X, st)
	it := &rangeIter{mapVal: x}
	if mt, ok := ins.X.Type().Underlying().(*types.Map); ok {
		it.mapTy = mt
		u.cellCtr++
		ks := sortOf(mt.Key())
		c := &Cell{Name: "visited_" + ins.Name(), Sort: ArraySort(ks, SBool), ID: u.cellCtr}
		it.vis = c
		st.cells[c] = Term{fmt.Sprintf("((as const (Array %s Bool)) false)", ks), ArraySort(ks, SBool)}
	} else {
		it.isStr = true
	}
	f.rangeIt[ins] = it
	f.set(ins, Val{T: IntLit(0)})
}

func (f *Frame) initRangeGhost(li *loopInfo, st *State) {
	// expose the visited set of the map-range loop headed here as ghost "$visited"
	for _, ins := range li.head.Instrs {
		if n, ok := ins.(*ssa.Next); ok {
			if it := f.rangeIt[n.Iter]; it != nil && it.vis != nil {
				st.ghost["$visited"] = st.cells[it.vis]
			}
		}
	}
}

func (f *Frame) execNext(ins *ssa.Next, st *State) {
	u := f.u
	it := f.rangeIt[ins.Iter]
	tt := ins.Type().(*types.Tuple)
	if it == nil || it.isStr || it.mapTy == nil {
		ok := u.defs.Fresh("next_ok", SBool)
		f.set(ins, Val{Tup: []Val{{T: ok}, {T: u.freshOf(st, "next_k", tt.At(1).Type())}, {T: u.freshOf(st, "next_v", tt.At(2).Type())}}})
		return
	}
	mt := it.mapTy
	ks, vs := sortOf(mt.Key()), sortOf(mt.Elem())
	m := it.mapVal.T
	dom := Select(u.heapGet(st, mapDomClass(mt), ArraySort(SInt, ArraySort(ks, SBool))), m)
	val := Select(u.heapGet(st, mapValClass(mt), ArraySort(SInt, ArraySort(ks, vs))), m)
	vis := st.cells[it.vis]
	if g, okg := st.ghost["$visited"]; okg {
		// the loop havoc replaced the ghost; keep the cell in sync with it
		vis = g
	}
	ok := u.defs.Fresh("next_ok", SBool)
	k := u.defs.Fresh("next_k", ks)
	isNil := Eq(m, IntLit(0))
	u.qctr++
	q := fmt.Sprintf("q%d_k", u.qctr)
	allVisited := Term{fmt.Sprintf("(forall ((%s %s)) (=> (select %s %s) (select %s %s)))", q, ks, dom.S, q, vis.S, q), SBool}
	u.assume(st, And(
		Implies(ok, And(Not(isNil), Select(dom, k), Not(Select(vis, k)))),
		Implies(Not(ok), Or(isNil, allVisited)),
	))
	u.assume(st, typeFacts(k, mt.Key()))
	v := u.defs.Define("next_v", Select(val, k))
	u.assume(st, typeFacts(v, mt.Elem()))
	nvis := u.defs.Define("visited", Ite(ok, Store(vis, k, True), vis))
	st.cells[it.vis] = nvis
	st.ghost["$visited"] = nvis
	st.ghost["$visitedPrev"] = vis
	f.set(ins, Val{Tup: []Val{{T: ok}, {T: k, Ty: mt.Key()}, {T: v, Ty: mt.Elem()}}})
}

func isStructType(t types.Type) bool {
	if t == nil {
		return false
	}
	_, ok := t.Underlying().(*types.Struct)
	return ok
}

// fieldAddrTerm is the identity of the value-struct field #idx of the object at base.
func (u *Unit) fieldAddrTerm(base Term, fieldTy types.Type, depth, idx int) Term {
	return App("fld_addr", SInt, base, IntLit(int64(u.eng.tids.id(types.NewPointer(fieldTy))*1000+depth*100+idx)))
}

// guardCheck emits lock:held and lock:no-escape obligations for fields declared guarded.
func (f *Frame) guardCheck(ins *ssa.FieldAddr, lv *LValue, st *State) {
	u := f.u
	if len(u.eng.Guarded) == 0 || len(lv.Path) != 1 {
		return
	}
	named, ok := lv.Owner.(*types.Named)
	if !ok || named.Obj().Pkg() == nil {
		return
	}
	for _, g := range u.eng.Guarded {
		if g.Pkg != named.Obj().Pkg().Name() || g.Type != named.Obj().Name() || g.Field != lv.Path[0] {
			continue
		}
		stt := named.Underlying().(*types.Struct)
		lockIdx := -1
		for i := 0; i < stt.NumFields(); i++ {
			if stt.Field(i).Name() == g.Lock {
				lockIdx = i
			}
		}
		if lockIdx < 0 {
			u.errorf("guarded %s.%s: no lock field %s", g.Type, g.Field, g.Lock)
			return
		}
		lockAddr := u.fieldAddrTerm(lv.Base, stt.Field(lockIdx).Type(), 1, lockIdx)
		if _, isIface := stt.Field(lockIdx).Type().Underlying().(*types.Interface); isIface {
			// a lock held through an interface field (sync.Locker): the identity of the lock is the pointer the interface holds
			cls := fieldClass(named, []string{g.Lock})
			arr := u.heapGet(st, cls, ArraySort(SInt, SIface))
			lockAddr = App("iint", SInt, Select(arr, lv.Base))
		}
		h, okh := st.ghost["$held"]
		if !okh {
			h = u.ghostInit("$held", ArraySort(SInt, SBool))
		}
		ord := f.guardOrd(ins, g)
		u.addObl(st, "lock:held", fmt.Sprintf("%s.%s#%d", g.Type, g.Field, ord), Select(h, lockAddr), nil)
		// a write to guarded state must happen in the first critical section of this call: a decision taken in an
		// earlier critical section (e.g. through a callee that locks and unlocks) is stale by the time of the write
		if guardedWrite(ins) && !(u.spec != nil && u.spec.Opts["single-threaded"] == "true") {
			acq, oka := st.ghost["$acq"]
			acq0 := u.ghostInit("$acq", ArraySort(SInt, SInt))
			if !oka {
				acq = acq0
			}
			goal := Eq(Select(acq, lockAddr), App("+", SInt, Select(acq0, lockAddr), IntLit(1)))
			u.addObl(st, "lock:one-critical-section", fmt.Sprintf("%s.%s#%d", g.Type, g.Field, ord), goal, nil).Text = "guarded state is written in the first critical section of the call (check and update are atomic)"
		}
		// escape: the guarded value must not be returned or stored into a longer-lived object
		if refs := ins.Referrers(); refs != nil {
			for _, r := range *refs {
				ld, isLoad := r.(*ssa.UnOp)
				if !isLoad || ld.Op != token.MUL {
					continue
				}
				if esc := escapes(ld, map[ssa.Value]bool{}); esc != "" {
					u.addObl(st, "lock:no-escape", fmt.Sprintf("%s.%s#%d", g.Type, g.Field, ord), False, nil).Text = "guarded value " + esc
				}
			}
		}
	}
}

// guardUse: a map that was read out of a guarded field must also be looked up / updated / ranged over while the lock is
// held (reading the field under the lock and using the map after the unlock is the same race as not locking at all).
func (f *Frame) guardUse(at ssa.Instruction, m ssa.Value, st *State) {
	u := f.u
	if len(u.eng.Guarded) == 0 {
		return
	}
	ld, ok := m.(*ssa.UnOp)
	if !ok || ld.Op != token.MUL {
		return
	}
	fa, ok := ld.X.(*ssa.FieldAddr)
	if !ok {
		return
	}
	pt, ok := fa.X.Type().Underlying().(*types.Pointer)
	if !ok {
		return
	}
	named, ok := pt.Elem().(*types.Named)
	if !ok || named.Obj().Pkg() == nil {
		return
	}
	stt, ok := named.Underlying().(*types.Struct)
	if !ok {
		return
	}
	fname := stt.Field(fa.Field).Name()
	for _, g := range u.eng.Guarded {
		if g.Pkg != named.Obj().Pkg().Name() || g.Type != named.Obj().Name() || g.Field != fname {
			continue
		}
		lockIdx := -1
		for i := 0; i < stt.NumFields(); i++ {
			if stt.Field(i).Name() == g.Lock {
				lockIdx = i
			}
		}
		if lockIdx < 0 {
			return
		}
		base := f.val(fa.X, st).T
		lockAddr := u.fieldAddrTerm(base, stt.Field(lockIdx).Type(), 1, lockIdx)
		if _, isIface := stt.Field(lockIdx).Type().Underlying().(*types.Interface); isIface {
			cls := fieldClass(named, []string{g.Lock})
			arr := u.heapGet(st, cls, ArraySort(SInt, SIface))
			lockAddr = App("iint", SInt, Select(arr, base))
		}
		h, okh := st.ghost["$held"]
		if !okh {
			h = u.ghostInit("$held", ArraySort(SInt, SBool))
		}
		n := 0
		for _, b := range f.fn.Blocks {
			for _, i := range b.Instrs {
				switch i.(type) {
				case *ssa.Lookup, *ssa.MapUpdate, *ssa.Range:
					n++
				}
				if i == at {
					u.addObl(st, "lock:held-at-use", fmt.Sprintf("%s.%s#%d", g.Type, g.Field, n), Select(h, lockAddr), nil).Text = "a map read out of a guarded field is used while the guarding lock is held"
					return
				}
			}
		}
	}
}

func (f *Frame) guardOrd(ins *ssa.FieldAddr, g GuardDecl) int {
	n := 0
	for _, b := range f.fn.Blocks {
		for _, i := range b.Instrs {
			if fa, ok := i.(*ssa.FieldAddr); ok {
				pt := fa.X.Type().Underlying().(*types.Pointer)
				stt := pt.Elem().Underlying().(*types.Struct)
				if stt.Field(fa.Field).Name() == g.Field {
					if nm, ok := pt.Elem().(*types.Named); ok && nm.Obj().Name() == g.Type {
						n++
						if fa == ins {
							return n
						}
					}
				}
			}
		}
	}
	return n
}

// escapes reports how a reference-typed value leaves the function (returned / stored in a non-local object).
func escapes(v ssa.Value, seen map[ssa.Value]bool) string {
	if seen[v] {
		return ""
	}
	seen[v] = true
	switch v.Type().Underlying().(type) {
	case *types.Map, *types.Slice, *types.Pointer:
	default:
		return ""
	}
	refs := v.Referrers()
	if refs == nil {
		return ""
	}
	for _, r := range *refs {
		switch r := r.(type) {
		case *ssa.Return:
			return "is returned to the caller by reference"
		case *ssa.Store:
			if r.Val == v {
				// storing into a named result cell or a non-local object
				if a, ok := r.Addr.(*ssa.Alloc); ok {
					// local cell: follow loads of the cell
					if arefs := a.Referrers(); arefs != nil {
						for _, ar := range *arefs {
							if ld, ok := ar.(*ssa.UnOp); ok && ld.Op == token.MUL {
								if e := escapes(ld, seen); e != "" {
									return e
								}
							}
						}
					}
					continue
				}
				if fa, ok := r.Addr.(*ssa.FieldAddr); ok {
					if _, local := fa.X.(*ssa.Alloc); local {
						continue // field of a local object (e.g. a state struct marshalled under the lock)
					}
				}
				return "is stored into a longer-lived object"
			}
		case *ssa.Phi:
			if e := escapes(r, seen); e != "" {
				return e
			}
		case *ssa.MakeInterface:
			// passed on as interface: only flagged when that interface is returned
			if e := escapes(r, seen); e != "" {
				return e
			}
		}
	}
	return ""
}

// namedArgs exposes the arguments of a call under the callee's parameter names (and $arg0..) for "before" anchors.
func (f *Frame) namedArgs(c *ssa.CallCommon, st *State) map[string]TV {
	out := map[string]TV{}
	args := f.callArgs(c, st)
	var names []string
	var tys []types.Type
	if callee := c.StaticCallee(); callee != nil {
		names = sigParamNames(callee.Signature, callee, false)
		if callee.Signature.Recv() != nil {
			tys = append(tys, callee.Signature.Recv().Type())
		}
		for i := 0; i < callee.Signature.Params().Len(); i++ {
			tys = append(tys, callee.Signature.Params().At(i).Type())
		}
	} else if c.IsInvoke() {
		msig := c.Method.Type().(*types.Signature)
		names = sigParamNames(msig, nil, true)
		tys = append(tys, c.Value.Type())
		for i := 0; i < msig.Params().Len(); i++ {
			tys = append(tys, msig.Params().At(i).Type())
		}
	} else {
		sig := c.Signature()
		names = sigParamNames(sig, nil, false)
		for i := 0; i < sig.Params().Len(); i++ {
			tys = append(tys, sig.Params().At(i).Type())
		}
	}
	for i, a := range args {
		if a.T.S == "" {
			continue
		}
		var ty types.Type
		if i < len(tys) {
			ty = tys[i]
		}
		tv := TV{T: a.T, Ty: ty}
		out[fmt.Sprintf("$arg%d", i)] = tv
		if i < len(names) {
			if _, clash := out[names[i]]; !clash {
				out[names[i]] = tv
			}
		}
	}
	return out
}

// guardedWrite reports whether the guarded field access is (part of) a write: an assignment to the field, or an
// update/delete of the map or slice the field holds.
func guardedWrite(fa *ssa.FieldAddr) bool {
	refs := fa.Referrers()
	if refs == nil {
		return false
	}
	for _, r := range *refs {
		switch r := r.(type) {
		case *ssa.Store:
			if r.Addr == fa {
				return true
			}
		case *ssa.UnOp:
			if r.Op != token.MUL {
				continue
			}
			if lr := r.Referrers(); lr != nil {
				for _, x := range *lr {
					switch x := x.(type) {
					case *ssa.MapUpdate:
						if x.Map == r {
							return true
						}
					case *ssa.Call:
						if b, ok := x.Call.Value.(*ssa.Builtin); ok && b.Name() == "delete" && len(x.Call.Args) > 0 && x.Call.Args[0] == r {
							return true
						}
					case *ssa.IndexAddr:
						if x.X == r {
							if xr := x.Referrers(); xr != nil {
								for _, y := range *xr {
									if s, ok := y.(*ssa.Store); ok && s.Addr == x {
										return true
									}
								}
							}
						}
					}
				}
			}
		}
	}
	return false
}
