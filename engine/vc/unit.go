package vc

import (
	"fmt"
	"go/ast"
	"go/token"
	"go/types"
	"sort"
	"strings"

	"golang.org/x/tools/go/ssa"
)

// Obligation is one proof obligation.
type Obligation struct {
	Name   string
	Kind   string
	Label  string
	Props  []string
	Unit   string
	PC     Term
	Goal   Term
	Line   string
	Text   string
	Models []string // constants to report on sat
	// Replay describes how a counterexample of this obligation can be run against the real function (first-order units
	// that ask for it with "opt replay"): the terms of the inputs and of the results, with their Go types.
	Replay *ReplayInfo
	Query  string
	Res    SolverResult
	// ExpectFail marks vacuity probes: the obligation must be refuted.
	ExpectFail bool
	// Info marks informational probes that never fail a check.
	Info bool
	// KnownFinding marks obligations listed as open findings: they are expected not to discharge, so they get a short
	// time limit and no retry.
	KnownFinding bool
}

// ReplayVar is one concrete input (parameter, or basic field of a struct a pointer parameter points to) or result.
type ReplayVar struct {
	Name   string // parameter name ("ac"), or "ac.Resource" for a field; "ret0" for results
	GoType string // Go type as written in the package (string, int, bool, uint64, ...)
	Term   string // SMT term whose model value is the input / whose value is pinned to the observed result
	Sort   string
}

// ReplayInfo is attached to post-condition obligations of units that opt in.
type ReplayInfo struct {
	Func     string // function or method name
	Recv     string // receiver type name without the star ("" for plain functions)
	RecvPtr  bool
	RecvName string
	Pkg      string // import path
	PkgName  string
	Dir      string // package directory relative to the repository root
	Inputs   []ReplayVar
	Params   []ReplayParam
	Results  []ReplayVar
	// Complete: every field of every struct parameter is of basic type and therefore set from the model (no field is
	// left at its zero value by the harness)
	Complete bool
}

// ReplayParam is a parameter in call order: basic (Value from Inputs[Name]) or pointer to struct (fields from Inputs).
type ReplayParam struct {
	Name   string
	GoType string // for basic parameters
	Struct string // struct type name for pointer-to-struct parameters
	Fields []string
}

// Engine holds the loaded program and all contracts.
type Engine struct {
	FuncBaseline map[string]bool // canonical names of the functions of the committed baseline (functions_baseline.json)
	Prog         *ssa.Program
	Pkgs         map[string]*ssa.Package // by short name
	Contracts    map[string]*UnitSpec
	SpecFuns     map[string]*SpecFun
	Lemmas       map[string]*SpecFun
	Axioms       []*Axiom
	Consts       map[string]string
	tids         typeIDs
	Fset         *token.FileSet
	Funcs        map[string]*ssa.Function // canonical name -> function
	Preludes     []string                 // raw SMT preludes
	GlobalGhosts map[string]string        // "$name" -> spec type
	Guarded      []GuardDecl
	Writers      []WritersDecl
	GlobalFacts  map[string]Expr
	Local        map[string]map[string]*UnitSpec // contracts a package states about foreign callees (package -> callee -> spec)
}

// Unit is one verification run of a function against its contract.
type Unit struct {
	eng          *Engine
	fn           *ssa.Function
	spec         *UnitSpec
	name         string
	defs         *Defs
	obls         []*Obligation
	classSort    map[string]Sort
	gens         map[string]Term
	retainedCtr  int
	genCtr       int
	allocCtr     int
	allocBase    Term
	cellCtr      int
	Abstracted   []string
	AssumedUse   map[string]bool
	frameAcc     map[string][]Term // class -> (path condition of a return => frame goal there), see checkReturn
	safe         map[string]bool
	entry        *State
	errors       []string
	oblNames     map[string]int
	inlineDepth  int
	usedSpecFuns map[string]bool
	qctr         int
	entryMeasure Term
	LemmasUsed   map[string]bool
	axCache      map[*Axiom]axEntry
	ghostTy      map[string]types.Type
	events       map[int]havocEvent
	eventWhy     string
	topFrame     *Frame
	cellFns      map[*Cell]Val
}

// Frame is the execution of one ssa.Function (the unit itself or an inlined closure).
type Frame struct {
	u              *Unit
	fn             *ssa.Function
	vals           map[ssa.Value]Val
	env            []Val
	params         []Val
	top            bool
	prefix         string // "" for top, "$1" etc. for inlined closures
	loops          map[*ssa.BasicBlock]*loopInfo
	loopOrd        map[*ssa.BasicBlock]int
	callOrd        map[ssa.Instruction]string // anchor names "call X#k"
	rets           []retState
	rangeIt        map[ssa.Value]*rangeIter
	atSpecs        map[string][]*AtSpec
	curLoop        []*loopInfo
	siteOrd        map[string]map[ssa.Instruction]int
	lastCallResult *Val
	pendingRet     []Val // values about to be returned (visible at "return" anchors)
	beforeArgs     map[string]TV
	// a function that did not exist in the committed baseline (an extracted helper) and has no contract is verified as part
	// of its caller: its call sites are numbered in the caller's sequence (at the position of the call), its anchors carry
	// the caller's prefix, and names it does not know are looked up in the caller at the call site
	spliced     bool
	parent      *Frame
	parentBlock *ssa.BasicBlock
	parentIdx   int
}

type retState struct {
	st   *State
	vals []Val
}

type loopInfo struct {
	head       *ssa.BasicBlock
	body       map[*ssa.BasicBlock]bool
	backs      []*ssa.BasicBlock
	spec       *LoopSpec
	ord        int
	headState  *State           // havoced state at header (for decreases)
	phiHead    map[*ssa.Phi]Val // havoced phi values
	measure    Term
	hasMeasure bool
}

type rangeIter struct {
	mapVal Val
	mapTy  *types.Map
	vis    *Cell // visited set
	isStr  bool
}

func (u *Unit) errorf(format string, a ...any) {
	u.errors = append(u.errors, fmt.Sprintf(format, a...))
}

func (u *Unit) abstractf(format string, a ...any) {
	s := fmt.Sprintf(format, a...)
	for _, x := range u.Abstracted {
		if x == s {
			return
		}
	}
	u.Abstracted = append(u.Abstracted, s)
}

// addObl registers an obligation pc => goal.
func (u *Unit) addObl(st *State, kind, label string, goal Term, c *Clause) *Obligation {
	name := u.name + "/" + kind
	if label != "" {
		name += ":" + label
	}
	if n := u.oblNames[name]; n > 0 {
		u.oblNames[name] = n + 1
		name = fmt.Sprintf("%s~%d", name, n+1)
	} else {
		u.oblNames[name] = 1
	}
	o := &Obligation{Name: name, Kind: kind, Label: label, Unit: u.name, PC: st.pc, Goal: goal}
	if c != nil {
		o.Line = c.Line
		o.Text = c.Text
		o.Props = c.Props
	}
	if len(o.Props) == 0 && u.spec != nil {
		o.Props = u.spec.Props
	}
	u.obls = append(u.obls, o)
	return o
}

// ---------------------------------------------------------------------------
// CFG helpers

func rpo(fn *ssa.Function, isBack func(from, to *ssa.BasicBlock) bool) []*ssa.BasicBlock {
	seen := map[*ssa.BasicBlock]bool{}
	var post []*ssa.BasicBlock
	var dfs func(b *ssa.BasicBlock)
	dfs = func(b *ssa.BasicBlock) {
		seen[b] = true
		for _, s := range b.Succs {
			if !seen[s] && !isBack(b, s) {
				dfs(s)
			}
		}
		post = append(post, b)
	}
	if len(fn.Blocks) > 0 {
		dfs(fn.Blocks[0])
	}
	for i, j := 0, len(post)-1; i < j; i, j = i+1, j-1 {
		post[i], post[j] = post[j], post[i]
	}
	return post
}

func findLoops(fn *ssa.Function) map[*ssa.BasicBlock]*loopInfo {
	loops := map[*ssa.BasicBlock]*loopInfo{}
	for _, b := range fn.Blocks {
		for _, s := range b.Succs {
			if s.Dominates(b) { // back edge b -> s
				li := loops[s]
				if li == nil {
					li = &loopInfo{head: s, body: map[*ssa.BasicBlock]bool{s: true}}
					loops[s] = li
				}
				li.backs = append(li.backs, b)
				// natural loop body
				stack := []*ssa.BasicBlock{b}
				for len(stack) > 0 {
					x := stack[len(stack)-1]
					stack = stack[:len(stack)-1]
					if li.body[x] {
						continue
					}
					li.body[x] = true
					for _, p := range x.Preds {
						stack = append(stack, p)
					}
				}
			}
		}
	}
	// ordinals by header block index
	var heads []*ssa.BasicBlock
	for h := range loops {
		heads = append(heads, h)
	}
	sort.Slice(heads, func(i, j int) bool { return heads[i].Index < heads[j].Index })
	for i, h := range heads {
		loops[h].ord = i + 1
	}
	return loops
}

// calleeShort returns a short anchor name for a call instruction.
func calleeShort(c *ssa.CallCommon) string {
	if c.IsInvoke() {
		return c.Method.Name()
	}
	if f := c.StaticCallee(); f != nil {
		n := f.Name()
		return n
	}
	if b, ok := c.Value.(*ssa.Builtin); ok {
		return b.Name()
	}
	switch v := c.Value.(type) {
	case *ssa.Parameter:
		return v.Name()
	case *ssa.FreeVar:
		return v.Name()
	case *ssa.UnOp: // load of captured function variable
		if a, ok := v.X.(*ssa.Alloc); ok {
			return a.Comment
		}
		if a, ok := v.X.(*ssa.FreeVar); ok {
			return a.Name()
		}
		if fa, ok := v.X.(*ssa.FieldAddr); ok {
			st := fa.X.Type().Underlying().(*types.Pointer).Elem().Underlying().(*types.Struct)
			return st.Field(fa.Field).Name()
		}
	}
	return "dynamic"
}

func (f *Frame) numberCalls() {
	f.callOrd = map[ssa.Instruction]string{}
	type site struct {
		ins ssa.Instruction
		cc  *ssa.CallCommon
		pos token.Pos
		seq int
	}
	var sites []site
	seq := 0
	splicedSeen := map[*ssa.Function]bool{}
	for _, b := range f.fn.Blocks {
		last := token.NoPos
		for _, ins := range b.Instrs {
			if p := ins.Pos(); p.IsValid() {
				last = p
			}
			var cc *ssa.CallCommon
			switch c := ins.(type) {
			case *ssa.Call:
				cc = c.Common()
			case *ssa.Defer:
				cc = c.Common()
			case *ssa.Go:
				cc = c.Common()
			case *ssa.Send:
				// channel sends are program points of their own: "send#k" (k-th send in source order)
				sp := c.Pos()
				if !sp.IsValid() {
					sp = last
				}
				seq++
				sites = append(sites, site{ins, nil, sp, seq})
				continue
			}
			if cc == nil {
				continue
			}
			p := ins.Pos()
			if !p.IsValid() {
				p = last
			}
			seq++
			sites = append(sites, site{ins, cc, p, seq})
			// call sites of a spliced helper take part in this function's numbering, at the position of the call
			if h := f.u.splicedHelper(cc, f.fn); h != nil && !splicedSeen[h] {
				splicedSeen[h] = true
				var hs []site
				hseq := 0
				for _, hb := range h.Blocks {
					for _, hi := range hb.Instrs {
						var hc *ssa.CallCommon
						switch c := hi.(type) {
						case *ssa.Call:
							hc = c.Common()
						case *ssa.Defer:
							hc = c.Common()
						case *ssa.Go:
							hc = c.Common()
						}
						if hc == nil {
							continue
						}
						hseq++
						hs = append(hs, site{hi, hc, hi.Pos(), hseq})
					}
				}
				sort.SliceStable(hs, func(i, j int) bool {
					if hs[i].pos != hs[j].pos {
						return hs[i].pos < hs[j].pos
					}
					return hs[i].seq < hs[j].seq
				})
				for _, x := range hs {
					seq++
					sites = append(sites, site{x.ins, x.cc, p, seq})
				}
			}
		}
	}
	// anchors are numbered in source order (not block order), so that "call X#2" is the second X in the text
	sort.SliceStable(sites, func(i, j int) bool {
		if sites[i].pos != sites[j].pos {
			return sites[i].pos < sites[j].pos
		}
		return sites[i].seq < sites[j].seq
	})
	counts := map[string]int{}
	for _, s := range sites {
		if s.cc == nil {
			counts["<send>"]++
			f.callOrd[s.ins] = fmt.Sprintf("send#%d", counts["<send>"])
			continue
		}
		n := calleeShort(s.cc)
		counts[n]++
		f.callOrd[s.ins] = fmt.Sprintf("call %s#%d", n, counts[n])
	}
}

// splicedHelper: the callee of cc when it is a function of the repository that is not in the committed baseline of
// functions (functions_baseline.json), has no contract, has a body and is not the caller itself; nil otherwise. (When the
// caller calls it several times, its call sites are numbered at the first call.)
func (u *Unit) splicedHelper(cc *ssa.CallCommon, caller *ssa.Function) *ssa.Function {
	if u == nil || u.eng == nil || len(u.eng.FuncBaseline) == 0 {
		return nil
	}
	h := cc.StaticCallee()
	if h == nil || h == caller || len(h.Blocks) == 0 || h.Parent() != nil || h.Pkg == nil {
		return nil
	}
	name := canonFn(h)
	if u.eng.FuncBaseline[name] {
		return nil
	}
	if _, ok := u.eng.Funcs[name]; !ok {
		return nil // not a function of the loaded repository packages
	}
	if _, has := u.eng.contractFor(name, u.pkgName()); has {
		return nil
	}
	return h
}

// ---------------------------------------------------------------------------
// Name resolution: source-level variable names to SSA values at a program point.

func debugRefName(d *ssa.DebugRef) string {
	if id, ok := d.Expr.(*ast.Ident); ok {
		// go/ssa also emits a DebugRef for the field identifier of a selector (x.f): that is not a variable named f, and
		// must never capture a contract name (a callee parameter `id` would otherwise be read as the caller's `job.id`)
		if v, isVar := d.Object().(*types.Var); isVar && v.IsField() {
			return ""
		}
		return id.Name
	}
	return ""
}

// lookupName finds the SSA value carrying source variable `name` at the point just before
// instruction index `idx` of block b (idx == -1: block start, only phis of dominators and b's own phis).
func (f *Frame) lookupName(name string, b *ssa.BasicBlock, idx int) (ssa.Value, bool, bool) {
	// returns (value, isAddr, found)
	// A captured variable of a closure unit is read through its cell in the state at hand (so that old(x) and x differ
	// after an assignment): value DebugRefs are only snapshots taken at individual loads.
	for _, fv := range f.fn.FreeVars {
		if fv.Name() == name {
			return fv, true, true
		}
	}
	// An addressable local (Alloc named after the variable: captured, named result, address taken) is read through its
	// cell: value DebugRefs of such a variable are only snapshots taken at individual loads and stores.
	{
		var best *ssa.Alloc
		for blk := b; blk != nil; blk = blk.Idom() {
			end := len(blk.Instrs)
			if blk == b && idx >= 0 {
				end = idx
			} else if blk == b {
				end = 0
			}
			for i := end - 1; i >= 0; i-- {
				if a, ok := blk.Instrs[i].(*ssa.Alloc); ok && a.Comment == name {
					best = a
					break
				}
			}
			if best != nil {
				break
			}
		}
		if best != nil {
			return best, true, true
		}
	}
	first := true
	for blk := b; blk != nil; blk = blk.Idom() {
		end := len(blk.Instrs)
		if first {
			if idx < 0 {
				end = 0
				// phis only
				for _, ins := range blk.Instrs {
					if p, ok := ins.(*ssa.Phi); ok {
						if p.Comment == name {
							return p, false, true
						}
					} else {
						break
					}
				}
			} else {
				end = idx
			}
			first = false
		}
		for i := end - 1; i >= 0; i-- {
			switch ins := blk.Instrs[i].(type) {
			case *ssa.DebugRef:
				if debugRefName(ins) == name {
					if c, isConst := ins.X.(*ssa.Const); isConst && !ins.IsAddr && (c.Value == nil) {
						// x/tools v0.29 records the zero value at the defining occurrence of "x := <composite>" (the
						// variable's cell before the assignment): prefer a use of the same variable whose value
						// is defined at a point dominating here
						if alt := f.dominatingUse(name, b, idx); alt != nil {
							return alt, false, true
						}
					}
					return ins.X, ins.IsAddr, true
				}
			case *ssa.Phi:
				if ins.Comment == name {
					return ins, false, true
				}
			case *ssa.Alloc:
				if ins.Comment == name {
					return ins, true, true
				}
			}
		}
	}
	for _, p := range f.fn.Params {
		if p.Name() == name {
			return p, false, true
		}
	}
	for _, fv := range f.fn.FreeVars {
		if fv.Name() == name {
			return fv, true, true
		}
	}
	// any alloc with that comment anywhere (captured variable declared later in the dominator order is impossible)
	for _, blk := range f.fn.Blocks {
		for _, ins := range blk.Instrs {
			if a, ok := ins.(*ssa.Alloc); ok && a.Comment == name {
				if _, done := f.vals[a]; done {
					return a, true, true
				}
			}
		}
	}
	return nil, false, false
}

// dominatingUse finds a DebugRef of the named variable anywhere in the function whose value is an instruction
// defined in a block dominating b (the deepest such definition wins).
func (f *Frame) dominatingUse(name string, b *ssa.BasicBlock, idx int) ssa.Value {
	var best ssa.Value
	var bestBlock *ssa.BasicBlock
	for _, blk := range f.fn.Blocks {
		for _, ins := range blk.Instrs {
			d, ok := ins.(*ssa.DebugRef)
			if !ok || d.IsAddr || debugRefName(d) != name {
				continue
			}
			vi, isInstr := d.X.(ssa.Instruction)
			if !isInstr {
				continue
			}
			db := vi.Block()
			if db == nil || !(db.Dominates(b)) {
				continue
			}
			if db == b && idx < 0 {
				if _, isPhi := d.X.(*ssa.Phi); !isPhi {
					continue
				}
			}
			if bestBlock == nil || bestBlock.Dominates(db) {
				best, bestBlock = d.X, db
			}
		}
	}
	return best
}

func shortPos(fset *token.FileSet, p token.Pos) string {
	if !p.IsValid() {
		return "?"
	}
	pos := fset.Position(p)
	fn := pos.Filename
	if i := strings.LastIndex(fn, "/"); i >= 0 {
		fn = fn[i+1:]
	}
	return fmt.Sprintf("%s:%d", fn, pos.Line)
}

// GuardDecl: field Type.Field of package Pkg may only be accessed with Type.Lock held and must not escape.
type GuardDecl struct {
	Pkg, Type, Field, Lock string
}

// WritersDecl: only the listed functions may write field Type.Field (or the map/slice it refers to).
type WritersDecl struct {
	Pkg, Type, Field string
	Allowed          []string
	Props            []string
}

// pkgName is the short name of the package whose contract file declares the unit.
func (u *Unit) pkgName() string {
	if u.spec != nil {
		return u.spec.Pkg
	}
	return ""
}
