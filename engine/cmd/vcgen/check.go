package main

import (
	"encoding/json"
	"fmt"
	"os"
	"os/exec"
	"path/filepath"
	"sort"
	"strconv"
	"strings"
	"time"

	"verif/engine/vc"
)

const verifRoot = "/verif"

// outRoot is where evidence and replay files go: /verif normally, a scratch directory for self-tests
// (VERIF_OUT), so that mutant runs never overwrite the evidence of the real tree.
func outRoot() string {
	if d := os.Getenv("VERIF_OUT"); d != "" {
		return d
	}
	return verifRoot
}

// PropConfig is the per-property configuration in /verif/props.json.
type PropConfig struct {
	Packages       []string `json:"packages"`
	Title          string   `json:"title"`
	NotDecided     []string `json:"not_decided"`
	Assumed        []string `json:"assumed"`
	Bounded        []string `json:"bounded"`         // names of bounded stand-in harnesses
	Lemmas         []string `json:"lemmas"`          // lemma smt2 files (relative to /verif/lemmas)
	RecursionSweep []string `json:"recursion_sweep"` // package short names swept for unproved recursion
	RecursionAllow []string `json:"recursion_allow"` // structural recursions over finite input data, listed as assumptions
}

type KnownFinding struct {
	Property   string `json:"property"`
	Obligation string `json:"obligation"`
	What       string `json:"what"`
	Status     string `json:"status"` // "open" or "fixed: <commit>"
}

type oblOut struct {
	Name    string `json:"name"`
	Kind    string `json:"kind"`
	Verdict string `json:"verdict"`
	Backend string `json:"backend"`
	Ms      int64  `json:"ms"`
	Text    string `json:"contract,omitempty"`
	Line    string `json:"contract_line,omitempty"`
}

func loadJSON(path string, v any) error {
	b, err := os.ReadFile(path)
	if err != nil {
		return err
	}
	return json.Unmarshal(b, v)
}

func relLine(s string) string {
	return strings.TrimPrefix(s, "/repo/")
}

// runCheck runs the check of one property; returns the process exit code.
func runCheck(prop string, thorough bool, repo string, writeExpected bool) int {
	t0 := time.Now()
	tier := "quick"
	if thorough || os.Getenv("VERIF_TIER") == "thorough" {
		tier = "thorough"
		thorough = true
	}
	seed := 0
	if s := os.Getenv("VERIF_SEED"); s != "" {
		seed, _ = strconv.Atoi(s)
	}
	var props map[string]*PropConfig
	if err := loadJSON(filepath.Join(verifRoot, "props.json"), &props); err != nil {
		fmt.Println("cannot read props.json:", err)
		return 2
	}
	pc := props[prop]
	if pc == nil {
		fmt.Printf("property %s is not claimed by any check\n", prop)
		return 2
	}
	var known []KnownFinding
	loadJSON(filepath.Join(verifRoot, "known_findings.json"), &known)
	expected := map[string][]string{}
	// the baseline of obligations that must still be generated: normally /verif's own; a check run against another tree
	// (a scratch worktree at an older commit) may bring the baseline that belongs to that tree
	expectedPath := filepath.Join(verifRoot, "expected_obligations.json")
	if p := os.Getenv("VERIF_EXPECTED"); p != "" {
		expectedPath = p
	} else if _, err := os.Stat(filepath.Join(repo, ".verif_expected.json")); err == nil && repo != "/repo" {
		expectedPath = filepath.Join(repo, ".verif_expected.json")
	}
	loadJSON(expectedPath, &expected)

	vc.LoadLocalsBaseline(filepath.Join(verifRoot, "locals_baseline.json"))
	eng, err := vc.Load(repo, pc.Packages, filepath.Join(verifRoot, "prelude"))
	if eng != nil {
		var fb []string
		loadJSON(filepath.Join(verifRoot, "functions_baseline.json"), &fb)
		eng.FuncBaseline = map[string]bool{}
		for _, n := range fb {
			eng.FuncBaseline[n] = true
		}
	}
	replayPath := filepath.Join(outRoot(), "out", "replay", prop+".json")
	os.MkdirAll(filepath.Dir(replayPath), 0o755)
	if err != nil {
		// the tree does not load (type error, contract parse error): the proof cannot be regenerated
		writeReplay(replayPath, map[string]any{"property": prop, "classification": "undischarged-structure-changed", "error": err.Error()})
		writeEvidence(prop, tier, seed, t0, nil, nil, nil, pc, 1, []string{"load error: " + err.Error()}, nil)
		fmt.Printf("VIOLATION property=%s replay=%s no-failing-input-found\n", prop, replayPath)
		return 1
	}
	// units of this property
	var names []string
	for name, spec := range eng.Contracts {
		if spec.Assumed || spec.External {
			continue
		}
		if specHasProp(spec, prop) {
			names = append(names, name)
		}
	}
	sort.Strings(names)
	timeout := 10000
	need := 1
	if thorough {
		timeout = 60000
		need = 2
	}
	var reports []*vc.UnitReport
	var all []*vc.Obligation
	var structErrs []string
	for _, n := range names {
		rep := eng.GenerateUnit(eng.Contracts[n])
		reports = append(reports, rep)
		for _, e := range rep.Errors {
			structErrs = append(structErrs, e)
		}
		for _, o := range rep.Obls {
			if hasProp(o.Props, prop) {
				all = append(all, o)
			}
		}
	}
	// lemmas used by these units
	lemmaObls := eng.LemmaObligations(reports, prop)
	all = append(all, lemmaObls...)
	all = append(all, eng.WriterObligations(prop)...)
	for _, rp := range pc.RecursionSweep {
		all = append(all, eng.RecursionObligations(rp, prop, pc.RecursionAllow)...)
	}
	knownOpen := map[string]bool{}
	for _, k := range known {
		if k.Property == prop && !strings.HasPrefix(k.Status, "fixed") {
			knownOpen[k.Obligation] = true
		}
	}
	for _, o := range all {
		if knownOpen[o.Name] {
			o.KnownFinding = true
		}
	}
	vc.SolveAll(all, timeout, need)

	if writeExpected {
		var exp []string
		for _, o := range all {
			if !o.ExpectFail && o.Res.Verdict == "unsat" && isContractLabelled(o) {
				exp = append(exp, o.Name)
			}
		}
		sort.Strings(exp)
		expected[prop] = exp
		b, _ := json.MarshalIndent(expected, "", " ")
		os.WriteFile(filepath.Join(verifRoot, "expected_obligations.json"), append(b, '\n'), 0o644)
		fmt.Printf("wrote %d expected obligations for %s\n", len(exp), prop)
		// locals of the functions under contract (rename tolerance)
		lb := map[string][]string{}
		loadJSON(filepath.Join(verifRoot, "locals_baseline.json"), &lb)
		for k, v := range eng.CollectLocals() {
			lb[k] = v
		}
		lbb, _ := json.MarshalIndent(lb, "", " ")
		os.WriteFile(filepath.Join(verifRoot, "locals_baseline.json"), append(lbb, '\n'), 0o644)
		// the functions that exist in the committed tree (a function that is not in this list is new: see Frame.spliced)
		var fb []string
		loadJSON(filepath.Join(verifRoot, "functions_baseline.json"), &fb)
		seenF := map[string]bool{}
		for _, n := range fb {
			seenF[n] = true
		}
		for n := range eng.Funcs {
			seenF[n] = true
		}
		fb = fb[:0]
		for n := range seenF {
			fb = append(fb, n)
		}
		sort.Strings(fb)
		fbb, _ := json.MarshalIndent(fb, "", " ")
		os.WriteFile(filepath.Join(verifRoot, "functions_baseline.json"), append(fbb, '\n'), 0o644)
	}

	knownBy := map[string]KnownFinding{}
	for _, k := range known {
		if k.Property == prop && !strings.HasPrefix(k.Status, "fixed") {
			knownBy[k.Obligation] = k
		}
	}
	generated := map[string]bool{}
	var outs []oblOut
	var failed []map[string]any
	failedObl := map[string]*vc.Obligation{}
	var knownHit []string
	nObl, nDis := 0, 0
	nVac, nVacOK := 0, 0
	var unreachable []string
	var solverMs int64
	backends := map[string]int{}
	for _, o := range all {
		generated[o.Name] = true
		solverMs += o.Res.Ms
		outs = append(outs, oblOut{Name: o.Name, Kind: o.Kind, Verdict: o.Res.Verdict, Backend: o.Res.Backend, Ms: o.Res.Ms, Text: o.Text, Line: relLine(o.Line)})
		if o.ExpectFail && o.Info {
			if o.Res.Verdict == "unsat" {
				unreachable = append(unreachable, o.Name)
			}
			continue
		}
		if o.ExpectFail {
			nVac++
			switch o.Res.Verdict {
			case "sat":
				nVacOK++
			case "unsat":
				failed = append(failed, map[string]any{"obligation": o.Name, "classification": "vacuous-precondition", "detail": "the unit's entry condition is unsatisfiable: every obligation of the unit would hold vacuously", "solver": o.Res.Backend})
			}
			continue
		}
		nObl++
		switch o.Res.Verdict {
		case "unsat":
			nDis++
			backends[o.Res.Backend]++
			if k, ok := knownBy[o.Name]; ok {
				fmt.Printf("NOTE: known finding no longer reproduces: property=%s %s (%s)\n", prop, o.Name, k.What)
			}
		default:
			if k, ok := knownBy[o.Name]; ok {
				fmt.Printf("KNOWN-FINDING: property=%s %s: %s\n", prop, o.Name, k.What)
				knownHit = append(knownHit, o.Name)
				nObl-- // a recorded finding is reported, not counted among the obligations this run claims
				continue
			}
			cls := "undischarged"
			if o.Res.Verdict == "sat" {
				cls = "refuted"
			}
			failedObl[o.Name] = o
			failed = append(failed, map[string]any{"obligation": o.Name, "classification": cls, "verdict": o.Res.Verdict, "solver": o.Res.Backend, "contract": o.Text, "contract_line": relLine(o.Line), "model": o.Res.Model, "solver_output": o.Res.Output, "query_file": saveQuery(prop, o)})
		}
	}
	for _, e := range structErrs {
		failed = append(failed, map[string]any{"obligation": "structure", "classification": "undischarged-structure-changed", "detail": e})
	}
	for _, en := range expected[prop] {
		if !generated[en] {
			if _, ok := knownBy[en]; ok {
				continue
			}
			failed = append(failed, map[string]any{"obligation": en, "classification": "undischarged-structure-changed", "detail": "an obligation discharged on the committed baseline is no longer generated from the current tree (its function, loop or call site was renamed or removed): the proof did not go through"})
		}
	}
	if nObl == 0 {
		failed = append(failed, map[string]any{"obligation": "none", "classification": "undischarged-structure-changed", "detail": "no obligations were generated for this property"})
	}
	// bounded stand-ins (labelled; never counted as proved)
	var boundedOut []map[string]any
	for _, b := range pc.Bounded {
		res := runBounded(b, prop, thorough, seed, repo)
		boundedOut = append(boundedOut, res)
		if v, _ := res["violation"].(bool); v {
			if kn, _ := res["known"].(bool); !kn {
				failed = append(failed, map[string]any{"obligation": "bounded:" + b, "classification": "refuted+replayed", "detail": res["detail"], "replayed_on_real_code": true})
			}
		}
	}

	violations := len(failed)
	extra := map[string]any{
		"vacuity_probes": nVac, "vacuity_ok": nVacOK,
		"solver_time_s":       float64(solverMs) / 1000.0,
		"backends":            backends,
		"known_findings_hit":  knownHit,
		"unreachable_returns": unreachable,
		"bounded":             boundedOut,
	}
	writeEvidence(prop, tier, seed, t0, reports, outs, extra, pc, violations, structErrs, []int{nObl, nDis})
	if violations > 0 {
		replayed := false
		// try to replay refuted obligations on the real code
		for _, f := range failed {
			if f["classification"] == "refuted" {
				name, _ := f["obligation"].(string)
				if r := tryReplay(prop, f, repo, failedObl[name]); r != nil {
					f["replay"] = r
					if ok, _ := r["reproduced"].(bool); ok {
						f["classification"] = "refuted+replayed"
						replayed = true
					}
				}
			}
			if f["classification"] == "refuted+replayed" {
				replayed = true
			}
		}
		writeReplay(replayPath, map[string]any{"property": prop, "tier": tier, "failed": failed, "how_to_rerun": "cd /verif && ./check " + prop})
		for _, f := range failed {
			fmt.Printf("  failed: %v [%v]\n", f["obligation"], f["classification"])
		}
		suffix := " no-failing-input-found"
		if replayed {
			suffix = ""
		}
		fmt.Printf("VIOLATION property=%s replay=%s%s\n", prop, replayPath, suffix)
		return 1
	}
	fmt.Printf("OK property=%s tier=%s obligations=%d discharged=%d known_findings=%d vacuity=%d/%d wall=%.1fs\n", prop, tier, nObl, nDis, len(knownHit), nVacOK, nVac, time.Since(t0).Seconds())
	return 0
}

// isContractLabelled selects the obligations whose disappearance means the proof structure changed.
// Per-back-edge duplicates (~N), safety sweeps and termination obligations are excluded so that
// harmless restructuring (an extra continue, a removed index expression) is not reported.
func isContractLabelled(o *vc.Obligation) bool {
	if strings.Contains(o.Kind, "safe:") || strings.Contains(o.Name, "~") || strings.Contains(o.Kind, "term") || strings.Contains(o.Kind, "inv-") || strings.Contains(o.Name, "/frame:") {
		return false
	}
	return true
}

func saveQuery(prop string, o *vc.Obligation) string {
	dir := filepath.Join(outRoot(), "out", "replay", prop+"-queries")
	os.MkdirAll(dir, 0o755)
	p := filepath.Join(dir, sanitizeFile(o.Name)+".smt2")
	os.WriteFile(p, []byte(o.Query+"(check-sat)\n"), 0o644)
	return p
}

func sanitizeFile(s string) string {
	var b strings.Builder
	for _, r := range s {
		if r >= 'a' && r <= 'z' || r >= 'A' && r <= 'Z' || r >= '0' && r <= '9' || r == '-' || r == '_' || r == '.' {
			b.WriteRune(r)
		} else {
			b.WriteByte('_')
		}
	}
	return b.String()
}

func specHasProp(s *vc.UnitSpec, p string) bool {
	if hasProp(s.Props, p) {
		return true
	}
	for _, c := range s.Ensures {
		if hasProp(c.Props, p) {
			return true
		}
	}
	for _, l := range s.Loops {
		for _, c := range l.Invariants {
			if hasProp(c.Props, p) {
				return true
			}
		}
	}
	for _, l := range s.ClosureLoops {
		for _, c := range l.Invariants {
			if hasProp(c.Props, p) {
				return true
			}
		}
	}
	for _, at := range s.Ats {
		for _, c := range at.Clauses {
			if hasProp(c.Props, p) {
				return true
			}
		}
	}
	return false
}

func hasProp(ps []string, p string) bool {
	for _, x := range ps {
		if x == p {
			return true
		}
	}
	return false
}

func writeReplay(path string, v any) {
	b, _ := json.MarshalIndent(v, "", " ")
	os.WriteFile(path, append(b, '\n'), 0o644)
}

func writeEvidence(prop, tier string, seed int, t0 time.Time, reports []*vc.UnitReport, outs []oblOut, extra map[string]any, pc *PropConfig, violations int, structErrs []string, counts []int) {
	var fns []map[string]any
	var abstracted, assumedContracts, lemmas []string
	seenA := map[string]bool{}
	for _, r := range reports {
		fns = append(fns, map[string]any{"unit": r.Unit, "obligations": len(r.Obls), "blocks": r.Blocks, "instrs": r.Instrs})
		abstracted = append(abstracted, r.Abstracted...)
		for _, a := range r.Assumed {
			if !seenA[a] {
				seenA[a] = true
				assumedContracts = append(assumedContracts, a)
			}
		}
		lemmas = append(lemmas, r.Lemmas...)
	}
	sort.Strings(assumedContracts)
	nObl, nDis := 0, 0
	if counts != nil {
		nObl, nDis = counts[0], counts[1]
	}
	var samples []any
	for i, o := range outs {
		if i >= 6 {
			break
		}
		samples = append(samples, o)
	}
	cov := map[string]any{
		"obligations":              nObl,
		"discharged":               nDis,
		"checker_cmd":              "/verif/bin/vcgen check " + prop + " (go/ssa VC generator; solvers raced per obligation: z3-new 5.1.0, cvc5 1.0, z3 4.8.12)",
		"trusted_base":             trustedBase(assumedContracts),
		"functions_under_contract": fns,
		"obligation_list":          outs,
		"samples":                  samples,
		"abstracted":               abstracted,
		"assumed_contracts_used":   assumedContracts,
		"lemmas_used":              lemmas,
		"structure_errors":         structErrs,
	}
	for k, v := range extra {
		cov[k] = v
	}
	assumptions := []string{
		"go/ssa (x/tools v0.29.0) translates the Go source faithfully; the verified text is the SSA of the functions in /repo's working tree, regenerated on every run",
		"Go integers are modelled as mathematical integers with their type's range assumed for inputs and loaded values; wrap-around of + - * is not modelled unless a safe:ovf obligation is listed",
		"each unit is verified sequentially: goroutine interleavings are not modelled (go statements havoc the cells the goroutine writes)",
		"strings are SMT strings (len counts characters; payloads are assumed ASCII where len matters)",
		"calls without a contract havoc the whole heap (listed under abstracted); logging, metrics, formatting and clock calls are treated as having no effect on modelled state",
		"freshly allocated objects are distinct from parameters and from each other; pointers loaded from the heap are not assumed distinct",
	}
	if pc != nil {
		for _, a := range pc.Assumed {
			assumptions = append(assumptions, "assumed: "+a)
		}
		for _, a := range pc.RecursionAllow {
			assumptions = append(assumptions, "assumed terminating (structural recursion over finite input data, not proved): "+a)
		}
		for _, a := range pc.NotDecided {
			assumptions = append(assumptions, "not decided by this check: "+a)
		}
	}
	ev := map[string]any{
		"property_id": prop,
		"tier":        tier,
		"seed":        seed,
		"level":       "proof",
		"coverage":    cov,
		"assumptions": assumptions,
		"wall_s":      time.Since(t0).Seconds(),
		"violations":  violations,
	}
	os.MkdirAll(filepath.Join(outRoot(), "evidence"), 0o755)
	b, _ := json.MarshalIndent(ev, "", " ")
	os.WriteFile(filepath.Join(outRoot(), "evidence", prop+".json"), append(b, '\n'), 0o644)
}

func trustedBase(assumed []string) []string {
	tb := []string{
		"VC generator /verif/engine (symbolic execution over go/ssa, loop cutting by invariants, call-by-contract)",
		"SMT solvers z3 5.1.0, z3 4.8.12, cvc5 1.0",
		"go/ssa builder and go/types",
		"built-in semantics of: " + strings.Join(vc.IntrinsicNames(), ", "),
		"no-effect externals (prefix list): " + strings.Join(vc.BenignPrefixes(), " "),
	}
	for _, a := range assumed {
		tb = append(tb, "assumed contract: "+a)
	}
	return tb
}

// runBounded runs a bounded stand-in harness (a Go test injected with -overlay); results are labelled bounded.
func runBounded(name, prop string, thorough bool, seed int, repo string) map[string]any {
	script := filepath.Join(verifRoot, "bounded", name, "run.sh")
	args := []string{script, repo}
	if thorough {
		args = append(args, "thorough")
	} else {
		args = append(args, "quick")
	}
	cmd := exec.Command("bash", args...)
	cmd.Env = append(os.Environ(), fmt.Sprintf("VERIF_SEED=%d", seed), "VERIF_SCRATCH="+vc.Scratch())
	out, err := cmd.CombinedOutput()
	res := map[string]any{"function": name, "label": "bounded", "output_tail": tail(string(out), 1500)}
	// the harness prints a JSON line starting with BOUNDED-RESULT
	for _, ln := range strings.Split(string(out), "\n") {
		if strings.HasPrefix(ln, "BOUNDED-RESULT ") {
			var m map[string]any
			if json.Unmarshal([]byte(strings.TrimPrefix(ln, "BOUNDED-RESULT ")), &m) == nil {
				for k, v := range m {
					res[k] = v
				}
			}
		}
	}
	if err != nil {
		if _, ok := res["violation"]; !ok {
			res["violation"] = true
			res["detail"] = "bounded harness failed to run: " + err.Error()
		}
	}
	return res
}

func tail(s string, n int) string {
	if len(s) > n {
		return s[len(s)-n:]
	}
	return s
}
