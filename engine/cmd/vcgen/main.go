package main

import (
	_ "golang.org/x/tools/go/packages"
	_ "golang.org/x/tools/go/ssa"
	_ "golang.org/x/tools/go/ssa/ssautil"
)

func main() {}
