#!/usr/bin/env python3
# regenerates MANIFEST.json from props.json (claimed checks) and na.json (not-applicable reasons)
import json, subprocess
props = json.load(open('/verif/props.json'))
na = json.load(open('/verif/na.json'))
ids = [json.loads(l)['id'] for l in open('/verif/properties.jsonl')]
hooks = subprocess.run(['git','-C','/repo','log','--format=%H %s'],capture_output=True,text=True).stdout.strip().split('\n')
hook_commits = [l.split()[0] for l in hooks if l.split(' ',1)[1].startswith('verif:')]
checks = []
for pid in ids:
    if pid not in props: continue
    p = props[pid]
    checks.append({
        "property_id": pid,
        "quick_cmd": f"./check {pid}",
        "thorough_cmd": f"./check {pid} --thorough",
        "evidence_file": f"/verif/evidence/{pid}.json",
        "replay_cmd_template": f"./check {pid} --replay {{path}}",
        "engine": "vcgen",
        "level_claimed": {"category": "proof",
            "text": p.get("level_text", "Deductive: every contract obligation (pre/post, loop invariants, call-site preconditions, safety) generated from the go/ssa form of the real functions in /repo is discharged by an SMT solver for all inputs and all iterations; what the contracts do not cover is listed under not decided."),
            "design_ref": f"DESIGN.md §3 {pid}"},
        "level_note": "Assumed: " + "; ".join(p.get("assumed", [])) + ". Not decided: " + "; ".join(p.get("not_decided", [])) + ". Trusted: go/ssa, the VC generator, the SMT solvers, sequential semantics per unit.",
        "technique": p.get("technique", "contract-based deductive verification: weakest-precondition style VCs over go/ssa of the real functions, contracts in build-tagged comment files, discharged by z3/cvc5"),
    })
m = {
 "version": 1,
 "setup_cmd": "cd /verif/engine && GOFLAGS=-mod=vendor GOPROXY=off GOSUMDB=off GOTOOLCHAIN=local go build -o /verif/bin/vcgen ./cmd/vcgen",
 "hooks": {"guard": "verif", "enable": "-tags=verif (comment-only contract files internal/<pkg>/verif_contracts.go; no executable hook code)",
           "baseline_off_cmd": "cd /repo && GOFLAGS=-mod=mod GOPROXY=off go test -vet=off -count=1 -timeout 25m ./...",
           "source_commits": hook_commits, "add_only": True},
 "engines": [{"name": "vcgen", "path": "/verif/engine", "serves_properties": [c["property_id"] for c in checks],
              "kind_free_text": "verification-condition generator over go/ssa (symbolic execution, loops cut at invariants, calls replaced by contracts), SMT portfolio z3-new/cvc5/z3"}],
 "checks": checks,
 "notes": "See DESIGN.md. Known findings: /verif/known_findings.json. Seeded breaking changes: /verif/seeded/.",
 "not_applicable": [{"property_id": i, "reason": na.get(i, "check not built yet; see DESIGN.md")} for i in ids if i not in props],
}
json.dump(m, open('/verif/MANIFEST.json','w'), indent=1)
print("claimed:", [c["property_id"] for c in checks])
