package server

import (
	"os"
	"testing"

	"github.com/DataDog/datadog-go/v5/statsd"
	"go.uber.org/zap"

	"github.com/mimiro-io/datahub/internal/conf"
)

// A transaction executed through a contextual store (what a JavaScript transform's ExecuteTransaction does) asserts new
// internal ids through the datasets' own store (the original one) but commits the id transaction of the CONTEXTUAL store
// (a stale copy taken when the transform was created): the data transaction is committed and acknowledged while the id
// mappings it names are still pending in the original store's shared id transaction.
func TestZZContextualStoreTxnIds(t *testing.T) {
	dir, _ := os.MkdirTemp("", "ctxprobe")
	defer os.RemoveAll(dir)
	e := &conf.Config{Logger: zap.NewNop().Sugar(), StoreLocation: dir}
	s := NewStore(e, &statsd.NoOpClient{})
	dsm := NewDsManager(e, s, NoOpBus())
	ds, err := dsm.CreateDataset("people", nil)
	if err != nil {
		t.Fatal(err)
	}
	pfx, _ := s.NamespaceManager.AssertPrefixMappingForExpansion("http://data.example.com/people/")
	homer := NewEntity(pfx+":homer", 0)
	homer.Properties[pfx+":name"] = "homer"
	if err := ds.StoreEntities([]*Entity{homer}); err != nil {
		t.Fatal(err)
	}
	ctx := NewContextualStore(s) // as jobs/transform.go does when a job with a JavaScript transform is parsed
	upd := NewEntity(pfx+":homer", 0)
	upd.Properties[pfx+":name"] = "homer"
	upd.References[pfx+":friend"] = pfx + ":barney" // a URI the hub has never seen: needs a new internal id
	txn := &Transaction{DatasetEntities: map[string][]*Entity{"people": {upd}}}
	if err := ctx.ExecuteTransaction(txn); err != nil {
		t.Fatal(err)
	}
	pending := s.idtxn != nil
	t.Logf("acknowledged; id transaction of the original store still pending: %v", pending)
	// the transaction is acknowledged: a crash now must not lose anything it wrote. Simulate the crash: the pending id
	// transaction is simply never committed (discard it), then reopen.
	if s.idtxn != nil {
		s.idtxn.Discard()
		s.idtxn = nil
	}
	s.Close()
	s2 := NewStore(e, &statsd.NoOpClient{})
	res, err := s2.GetManyRelatedEntities([]string{pfx + ":homer"}, pfx+":friend", false, nil, true)
	if err != nil {
		t.Fatal(err)
	}
	if len(res) != 1 {
		t.Fatalf("expected one relation, got %d", len(res))
	}
	rel := res[0][2].(*Entity)
	t.Logf("related entity after restart: id=%q", rel.ID)
	if rel.ID != pfx+":barney" {
		t.Fatalf("the acknowledged transaction's reference points to an internal id whose URI mapping was never committed: related id = %q (pending before crash: %v)", rel.ID, pending)
	}
}
