// Package vc: verification-condition generator over go/ssa and SMT back ends.
package vc

import (
	"bytes"
	"context"
	"fmt"
	"os"
	"os/exec"
	"path/filepath"
	"sort"
	"strings"
	"sync"
	"time"
)

// Sort is an SMT-LIB sort written out.
type Sort string

const (
	SInt    Sort = "Int"
	SBool   Sort = "Bool"
	SString Sort = "String"
	SReal   Sort = "Real"
	SSlice  Sort = "Slice"
	SIface  Sort = "Iface"
)

func ArraySort(k, v Sort) Sort { return Sort("(Array " + string(k) + " " + string(v) + ")") }

// Term is an SMT term with its sort.
type Term struct {
	S    string
	Sort Sort
}

func (t Term) String() string { return t.S }

func App(op string, sort Sort, args ...Term) Term {
	var b strings.Builder
	b.WriteString("(")
	b.WriteString(op)
	for _, a := range args {
		b.WriteString(" ")
		b.WriteString(a.S)
	}
	b.WriteString(")")
	return Term{b.String(), sort}
}

func IntLit(n int64) Term {
	if n < 0 {
		return Term{fmt.Sprintf("(- %d)", -n), SInt}
	}
	return Term{fmt.Sprintf("%d", n), SInt}
}
func BigIntLit(s string) Term {
	if strings.HasPrefix(s, "-") {
		return Term{"(- " + s[1:] + ")", SInt}
	}
	return Term{s, SInt}
}
func BoolLit(b bool) Term {
	if b {
		return Term{"true", SBool}
	}
	return Term{"false", SBool}
}
func StrLit(s string) Term {
	var b strings.Builder
	b.WriteByte('"')
	for _, r := range s {
		switch {
		case r == '"':
			b.WriteString(`""`)
		case r == '\\':
			b.WriteString(`\u{5c}`)
		case r < 0x20 || r > 0x7e:
			fmt.Fprintf(&b, `\u{%x}`, r)
		default:
			b.WriteRune(r)
		}
	}
	b.WriteByte('"')
	return Term{b.String(), SString}
}

var (
	True  = BoolLit(true)
	False = BoolLit(false)
)

func And(ts ...Term) Term {
	var xs []Term
	for _, t := range ts {
		if t.S == "true" {
			continue
		}
		if t.S == "false" {
			return False
		}
		xs = append(xs, t)
	}
	if len(xs) == 0 {
		return True
	}
	if len(xs) == 1 {
		return xs[0]
	}
	return App("and", SBool, xs...)
}
func Or(ts ...Term) Term {
	var xs []Term
	for _, t := range ts {
		if t.S == "false" {
			continue
		}
		if t.S == "true" {
			return True
		}
		xs = append(xs, t)
	}
	if len(xs) == 0 {
		return False
	}
	if len(xs) == 1 {
		return xs[0]
	}
	return App("or", SBool, xs...)
}
func Not(t Term) Term {
	if t.S == "true" {
		return False
	}
	if t.S == "false" {
		return True
	}
	return App("not", SBool, t)
}
func Implies(a, b Term) Term {
	if a.S == "true" {
		return b
	}
	return App("=>", SBool, a, b)
}
func Eq(a, b Term) Term { return App("=", SBool, a, b) }
func Ite(c, a, b Term) Term {
	if c.S == "true" {
		return a
	}
	if c.S == "false" {
		return b
	}
	if a.S == b.S {
		return a
	}
	return App("ite", a.Sort, c, a, b)
}
func Select(arr, idx Term) Term {
	// result sort: strip "(Array K " prefix
	return App("select", arrayValSort(arr.Sort), arr, idx)
}
func Store(arr, idx, v Term) Term { return App("store", arr.Sort, arr, idx, v) }

// arrayValSort returns V of "(Array K V)".
func arrayValSort(s Sort) Sort {
	str := string(s)
	if !strings.HasPrefix(str, "(Array ") {
		return SInt
	}
	inner := str[len("(Array ") : len(str)-1]
	// split at top-level space after first sort
	depth := 0
	for i, c := range inner {
		switch c {
		case '(':
			depth++
		case ')':
			depth--
		case ' ':
			if depth == 0 {
				return Sort(inner[i+1:])
			}
		}
	}
	return SInt
}
func arrayKeySort(s Sort) Sort {
	str := string(s)
	if !strings.HasPrefix(str, "(Array ") {
		return SInt
	}
	inner := str[len("(Array ") : len(str)-1]
	depth := 0
	for i, c := range inner {
		switch c {
		case '(':
			depth++
		case ')':
			depth--
		case ' ':
			if depth == 0 {
				return Sort(inner[:i])
			}
		}
	}
	return SInt
}

// ---------------------------------------------------------------------------
// Definition store with dependency slicing.

type def struct {
	name string
	sort Sort
	body string // "" => declared (free) constant
	fun  string // full text for function declarations/definitions (prelude-like, unit-local)
	deps []string
}

// Defs is an ordered store of named SMT constants/definitions.
type Defs struct {
	list  []*def
	index map[string]*def
	ctr   int
}

func NewDefs() *Defs { return &Defs{index: map[string]*def{}} }

func sanitize(h string) string {
	var b strings.Builder
	for _, r := range h {
		switch {
		case r >= 'a' && r <= 'z', r >= 'A' && r <= 'Z', r >= '0' && r <= '9', r == '_':
			b.WriteRune(r)
		case r == '.' || r == '$' || r == '*' || r == '/' || r == '-':
			b.WriteByte('_')
		case r == '[':
			b.WriteString("L")
		case r == ']':
			b.WriteString("R")
		}
	}
	s := b.String()
	if len(s) > 40 {
		s = s[:40]
	}
	return s
}

func (d *Defs) freshName(hint string) string {
	d.ctr++
	return fmt.Sprintf("v%d_%s", d.ctr, sanitize(hint))
}

// Fresh declares a new unconstrained constant.
func (d *Defs) Fresh(hint string, s Sort) Term {
	n := d.freshName(hint)
	df := &def{name: n, sort: s}
	d.list = append(d.list, df)
	d.index[n] = df
	return Term{n, s}
}

// Define names a term. Small atoms are returned unchanged.
func (d *Defs) Define(hint string, t Term) Term {
	if !strings.ContainsAny(t.S, " (") && !strings.HasPrefix(t.S, "\"") {
		return t
	}
	n := d.freshName(hint)
	df := &def{name: n, sort: t.Sort, body: t.S, deps: d.scan(t.S)}
	d.list = append(d.list, df)
	d.index[n] = df
	return Term{n, t.Sort}
}

// DeclareFun adds a unit-local function declaration (full SMT text), named so slicing can find it.
func (d *Defs) DeclareFun(name, text string) {
	if _, ok := d.index[name]; ok {
		return
	}
	df := &def{name: name, fun: text, deps: d.scan(text)}
	d.list = append(d.list, df)
	d.index[name] = df
}

func isSymChar(c byte) bool {
	return c >= 'a' && c <= 'z' || c >= 'A' && c <= 'Z' || c >= '0' && c <= '9' || c == '_' || c == '!' || c == '.' || c == '$'
}

func (d *Defs) scan(s string) []string {
	var out []string
	seen := map[string]bool{}
	i := 0
	for i < len(s) {
		c := s[i]
		if c == '"' { // skip string literal
			i++
			for i < len(s) {
				if s[i] == '"' {
					if i+1 < len(s) && s[i+1] == '"' {
						i += 2
						continue
					}
					break
				}
				i++
			}
			i++
			continue
		}
		if isSymChar(c) {
			j := i
			for j < len(s) && isSymChar(s[j]) {
				j++
			}
			w := s[i:j]
			if _, ok := d.index[w]; ok && !seen[w] {
				seen[w] = true
				out = append(out, w)
			}
			i = j
			continue
		}
		i++
	}
	return out
}

// Slice returns SMT text declaring everything the given terms depend on, in order.
func (d *Defs) Slice(roots ...string) string {
	need := map[string]bool{}
	var visit func(n string)
	visit = func(n string) {
		if need[n] {
			return
		}
		need[n] = true
		for _, x := range d.index[n].deps {
			visit(x)
		}
	}
	for _, r := range roots {
		for _, n := range d.scan(r) {
			visit(n)
		}
	}
	var b strings.Builder
	for _, df := range d.list {
		if !need[df.name] {
			continue
		}
		switch {
		case df.fun != "":
			b.WriteString(df.fun)
			b.WriteString("\n")
		case df.body == "":
			fmt.Fprintf(&b, "(declare-const %s %s)\n", df.name, df.sort)
		default:
			fmt.Fprintf(&b, "(define-fun %s () %s %s)\n", df.name, df.sort, df.body)
		}
	}
	return b.String()
}

// ---------------------------------------------------------------------------
// Solvers

type SolverResult struct {
	Verdict string // unsat | sat | unknown | timeout | error
	Backend string
	Ms      int64
	Output  string // raw output (first 4k)
	Model   map[string]string
}

type Solver struct {
	Name string
	Args func(file string, timeoutMs int) []string
	// rewrites the query for the solver's dialect
	Prep func(q string) string
}

var solverList = []Solver{
	{Name: "z3-new", Args: func(f string, ms int) []string {
		return []string{"z3-new", fmt.Sprintf("-t:%d", ms), f}
	}},
	{Name: "cvc5", Args: func(f string, ms int) []string {
		return []string{"cvc5", "--strings-exp", fmt.Sprintf("--tlimit=%d", ms), f}
	}, Prep: func(q string) string {
		// cvc5 does not know z3's option names
		q = strings.ReplaceAll(q, "(set-option :smt.random_seed 11)\n", "")
		q = strings.ReplaceAll(q, "(set-option :sat.random_seed 11)\n", "")
		return "(set-option :produce-models true)\n(set-logic ALL)\n" + q
	}},
	{Name: "z3", Args: func(f string, ms int) []string {
		return []string{"z3", fmt.Sprintf("-t:%d", ms), f}
	}},
}

var scratchDir string
var scratchOnce sync.Once

// Scratch returns a per-process scratch directory outside /repo and /verif.
func Scratch() string {
	scratchOnce.Do(func() {
		base := os.Getenv("VERIF_SCRATCH")
		if base == "" {
			base = "/var/tmp"
		}
		os.MkdirAll(base, 0o755)
		d, err := os.MkdirTemp(base, "verif-")
		if err != nil {
			d, _ = os.MkdirTemp("", "verif-")
		}
		scratchDir = d
	})
	return scratchDir
}

func CleanupScratch() {
	if scratchDir != "" {
		os.RemoveAll(scratchDir)
	}
}

var solverSem = make(chan struct{}, 14)

func runOne(ctx context.Context, sv Solver, q string, id string, timeoutMs int) SolverResult {
	solverSem <- struct{}{}
	defer func() { <-solverSem }()
	if ctx.Err() != nil {
		return SolverResult{Verdict: "cancelled", Backend: sv.Name}
	}
	text := q
	if sv.Prep != nil {
		text = sv.Prep(q)
	}
	f := filepath.Join(Scratch(), fmt.Sprintf("%s.%s.smt2", id, sv.Name))
	os.WriteFile(f, []byte(text), 0o644)
	defer os.Remove(f)
	args := sv.Args(f, timeoutMs)
	cctx, cancel := context.WithTimeout(ctx, time.Duration(timeoutMs+2000)*time.Millisecond)
	defer cancel()
	cmd := exec.CommandContext(cctx, args[0], args[1:]...)
	var out bytes.Buffer
	cmd.Stdout = &out
	cmd.Stderr = &out
	t0 := time.Now()
	cmd.Run()
	ms := time.Since(t0).Milliseconds()
	o := out.String()
	first := strings.TrimSpace(strings.SplitN(o, "\n", 2)[0])
	res := SolverResult{Backend: sv.Name, Ms: ms, Output: trunc(o, 6000)}
	switch first {
	case "unsat", "sat", "unknown":
		res.Verdict = first
	case "timeout":
		res.Verdict = "timeout"
	default:
		if ctx.Err() != nil {
			res.Verdict = "cancelled"
		} else if cctx.Err() != nil {
			res.Verdict = "timeout"
		} else if strings.Contains(o, "timeout") || strings.Contains(o, "interrupted") {
			res.Verdict = "timeout"
		} else {
			res.Verdict = "error"
		}
	}
	if res.Verdict == "sat" {
		res.Model = parseGetValue(o)
	}
	return res
}

func trunc(s string, n int) string {
	if len(s) > n {
		return s[:n] + "…"
	}
	return s
}

// parseGetValue parses "((name value) (name value))" blocks after the verdict line.
func parseGetValue(o string) map[string]string {
	m := map[string]string{}
	idx := strings.Index(o, "\n")
	if idx < 0 {
		return m
	}
	s := o[idx+1:]
	// tokenise s-expressions at depth 2
	depth := 0
	start := -1
	for i := 0; i < len(s); i++ {
		c := s[i]
		if c == '"' {
			i++
			for i < len(s) {
				if s[i] == '"' {
					if i+1 < len(s) && s[i+1] == '"' {
						i += 2
						continue
					}
					break
				}
				i++
			}
			continue
		}
		if c == '(' {
			depth++
			if depth == 2 {
				start = i
			}
		} else if c == ')' {
			if depth == 2 && start >= 0 {
				pair := strings.TrimSpace(s[start+1 : i])
				// the key is the first s-expression of the pair (an atom or a balanced term such as "(select H p)")
				sp := -1
				if strings.HasPrefix(pair, "(") {
					d := 0
					inStr := false
					for k := 0; k < len(pair); k++ {
						ch := pair[k]
						if ch == '"' {
							inStr = !inStr
						}
						if inStr {
							continue
						}
						if ch == '(' {
							d++
						} else if ch == ')' {
							d--
							if d == 0 {
								sp = k + 1
								break
							}
						}
					}
				} else {
					sp = strings.IndexAny(pair, " \n\t")
				}
				if sp > 0 && sp < len(pair) {
					m[strings.Join(strings.Fields(pair[:sp]), " ")] = strings.TrimSpace(pair[sp:])
				}
				start = -1
			}
			depth--
		}
	}
	return m
}

// Solve races the portfolio on one query. wantModel lists constants for get-value on sat.
// need: number of solvers that must agree on unsat (1 quick, 2 thorough where possible).
func Solve(q string, id string, timeoutMs int, wantModel []string, need int) (SolverResult, []SolverResult) {
	full := q + "(check-sat)\n"
	if len(wantModel) > 0 {
		full += "(get-value (" + strings.Join(wantModel, " ") + "))\n"
	}
	ctx, cancel := context.WithCancel(context.Background())
	defer cancel()
	ch := make(chan SolverResult, len(solverList))
	launched := 0
	launch := func(i int) {
		launched++
		go func(sv Solver) { ch <- runOne(ctx, sv, full, id, timeoutMs) }(solverList[i])
	}
	launch(0)
	var all []SolverResult
	var unsats []SolverResult
	stagger := time.After(1200 * time.Millisecond)
	if need > 1 {
		stagger = time.After(0)
	}
	pending := 1
	var best SolverResult
	best.Verdict = "unknown"
	for pending > 0 {
		select {
		case <-stagger:
			stagger = nil
			for i := 1; i < len(solverList); i++ {
				launch(i)
				pending++
			}
		case r := <-ch:
			pending--
			all = append(all, r)
			switch r.Verdict {
			case "unsat":
				unsats = append(unsats, r)
				if len(unsats) >= need {
					r.Backend = joinBackends(unsats)
					return r, all
				}
				if stagger != nil { // need a second opinion: launch the rest now
					stagger = nil
					for i := 1; i < len(solverList); i++ {
						launch(i)
						pending++
					}
				}
			case "sat":
				return r, all
			default:
				if best.Backend == "" || (best.Verdict == "error" && r.Verdict != "error") {
					best = r
				}
				if pending == 0 && stagger != nil {
					stagger = nil
					for i := 1; i < len(solverList); i++ {
						launch(i)
						pending++
					}
				}
			}
		}
	}
	if len(unsats) > 0 { // fewer agreeing solvers than requested but nobody disagreed
		r := unsats[0]
		r.Backend = joinBackends(unsats)
		return r, all
	}
	// summarise
	var parts []string
	for _, r := range all {
		parts = append(parts, r.Backend+":"+r.Verdict)
	}
	sort.Strings(parts)
	best.Backend = strings.Join(parts, ",")
	if best.Verdict == "cancelled" {
		best.Verdict = "unknown"
	}
	return best, all
}

func joinBackends(rs []SolverResult) string {
	var n []string
	for _, r := range rs {
		n = append(n, r.Backend)
	}
	return strings.Join(n, "+")
}
