package vc

import (
	"go/types"
	"strings"

	"golang.org/x/tools/go/ssa"
)

type intrinsic func(f *Frame, c *ssa.CallCommon, args []Val, st *State) Val

var intrinsics map[string]intrinsic
var intrinsicMods = map[string][]string{}

// IntrinsicNames lists the library functions given built-in (assumed) semantics.
func IntrinsicNames() []string { return sortedKeys(intrinsics) }

func init() {
	intrinsics = map[string]intrinsic{
		"strings.HasPrefix": func(f *Frame, c *ssa.CallCommon, a []Val, st *State) Val {
			return Val{T: App("str.prefixof", SBool, a[1].T, a[0].T)}
		},
		"strings.HasSuffix": func(f *Frame, c *ssa.CallCommon, a []Val, st *State) Val {
			return Val{T: App("str.suffixof", SBool, a[1].T, a[0].T)}
		},
		"strings.Contains": func(f *Frame, c *ssa.CallCommon, a []Val, st *State) Val {
			return Val{T: App("str.contains", SBool, a[0].T, a[1].T)}
		},
		"strings.Index": func(f *Frame, c *ssa.CallCommon, a []Val, st *State) Val {
			return Val{T: f.u.defs.Define("idx", App("str.indexof", SInt, a[0].T, a[1].T, IntLit(0)))}
		},
		"strings.LastIndex": func(f *Frame, c *ssa.CallCommon, a []Val, st *State) Val {
			// r = last occurrence: s[r:] has prefix sep and no occurrence starts after r; -1 iff not contained
			u := f.u
			r := u.defs.Fresh("lastidx", SInt)
			s, sep := a[0].T, a[1].T
			slen := App("str.len", SInt, s)
			seplen := App("str.len", SInt, sep)
			rest := App("str.substr", SString, s, App("+", SInt, r, IntLit(1)), App("-", SInt, App("-", SInt, slen, r), IntLit(1)))
			noLater := Implies(App(">=", SBool, r, IntLit(0)), Not(App("str.contains", SBool, rest, sep)))
			u.assume(st, And(
				App(">=", SBool, r, IntLit(-1)),
				App("<=", SBool, r, App("-", SInt, slen, seplen)),
				Eq(Eq(r, IntLit(-1)), Not(App("str.contains", SBool, s, sep))),
				Implies(App(">=", SBool, r, IntLit(0)), Eq(App("str.substr", SString, s, r, seplen), sep)),
				noLater,
			))
			return Val{T: r}
		},
		"strings.TrimPrefix": func(f *Frame, c *ssa.CallCommon, a []Val, st *State) Val {
			s, p := a[0].T, a[1].T
			return Val{T: f.u.defs.Define("trimp", Ite(App("str.prefixof", SBool, p, s), App("str.substr", SString, s, App("str.len", SInt, p), App("-", SInt, App("str.len", SInt, s), App("str.len", SInt, p))), s))}
		},
		"strings.TrimSuffix": func(f *Frame, c *ssa.CallCommon, a []Val, st *State) Val {
			s, p := a[0].T, a[1].T
			return Val{T: f.u.defs.Define("trims", Ite(App("str.suffixof", SBool, p, s), App("str.substr", SString, s, IntLit(0), App("-", SInt, App("str.len", SInt, s), App("str.len", SInt, p))), s))}
		},
		"math.Round": func(f *Frame, c *ssa.CallCommon, a []Val, st *State) Val {
			x := a[0].T
			half := Term{"0.5", SReal}
			pos := App("to_real", SReal, App("to_int", SInt, App("+", SReal, x, half)))
			neg := App("-", SReal, App("to_real", SReal, App("to_int", SInt, App("+", SReal, App("-", SReal, x), half))))
			return Val{T: f.u.defs.Define("round", Ite(App(">=", SBool, x, Term{"0.0", SReal}), pos, neg))}
		},
		"math.Max": func(f *Frame, c *ssa.CallCommon, a []Val, st *State) Val {
			return Val{T: f.u.defs.Define("fmax", Ite(App(">=", SBool, a[0].T, a[1].T), a[0].T, a[1].T))}
		},
		"math.Min": func(f *Frame, c *ssa.CallCommon, a []Val, st *State) Val {
			return Val{T: f.u.defs.Define("fmin", Ite(App("<=", SBool, a[0].T, a[1].T), a[0].T, a[1].T))}
		},
		"(binary.littleEndian).PutUint64": encPut("LE64"),
		"(binary.littleEndian).Uint64":    encGet("LE64"),
		"(binary.littleEndian).PutUint32": encPut("LE32"),
		"(binary.littleEndian).Uint32":    encGet("LE32"),
		"(binary.bigEndian).PutUint64":    encPut("BE64"),
		"(binary.bigEndian).Uint64":       encGet("BE64"),
		"(binary.bigEndian).PutUint32":    encPut("BE32"),
		"(binary.bigEndian).Uint32":       encGet("BE32"),
		"(binary.bigEndian).PutUint16":    encPut("BE16"),
		"(binary.bigEndian).Uint16":       encGet("BE16"),
		"(*badger.DB).View":               applyOnceTxn(false),
		"(*badger.DB).Update":             applyOnceTxn(true),
		"(*badger.Item).Value":            applyOnceValue,
		"atomic.AddInt64":                 atomicAdd,
		"atomic.AddInt32":                 atomicAdd,
		"atomic.AddUint64":                atomicAdd,
		"atomic.LoadInt64":                atomicLoad,
		"atomic.LoadInt32":                atomicLoad,
		"strconv.Atoi": func(f *Frame, c *ssa.CallCommon, a []Val, st *State) Val {
			// digit strings convert exactly (str.to_int); anything else: value and error are left open, but they are
			// functions of the text (two conversions of the same text agree)
			u := f.u
			n := u.defs.Define("toint", App("str.to_int", SInt, a[0].T))
			v := u.defs.Define("atoi_v", App("atoi_val", SInt, a[0].T))
			e := u.defs.Define("atoi_e", App("atoi_err", SIface, a[0].T))
			nilI := Term{"nil_iface", SIface}
			inRange := App("<=", SBool, n, BigIntLit("9223372036854775807"))
			u.assume(st, And(
				Implies(And(App(">=", SBool, n, IntLit(0)), inRange), And(Eq(v, n), Eq(e, nilI))),
				App("<=", SBool, BigIntLit("-9223372036854775808"), v), App("<=", SBool, v, BigIntLit("9223372036854775807")),
			))
			return Val{Tup: []Val{{T: v}, {T: e}}}
		},
		"strconv.Itoa": func(f *Frame, c *ssa.CallCommon, a []Val, st *State) Val {
			return Val{T: App("itoa", SString, a[0].T)}
		},
		"errors.Is": func(f *Frame, c *ssa.CallCommon, a []Val, st *State) Val {
			// errors.Is(e, target) is the uninterpreted relation err_is(e, target) with: true when e == target (non-nil),
			// false when e is nil and target is not; wrapping is otherwise left open (contracts may constrain it with errIs)
			u := f.u
			r := u.defs.Define("errors_is", App("err_is", SBool, a[0].T, a[1].T))
			nilI := Term{"nil_iface", SIface}
			u.assume(st, And(
				Implies(And(Eq(a[0].T, a[1].T), Not(Eq(a[0].T, nilI))), r),
				Implies(And(Eq(a[0].T, nilI), Not(Eq(a[1].T, nilI))), Not(r)),
			))
			return Val{T: r}
		},
		"errors.New": func(f *Frame, c *ssa.CallCommon, a []Val, st *State) Val {
			u := f.u
			r := u.defs.Fresh("err_new", SIface)
			u.assume(st, Not(Eq(r, Term{"nil_iface", SIface})))
			return Val{T: r}
		},
		"fmt.Errorf": func(f *Frame, c *ssa.CallCommon, a []Val, st *State) Val {
			u := f.u
			r := u.defs.Fresh("err_fmt", SIface)
			u.assume(st, Not(Eq(r, Term{"nil_iface", SIface})))
			return Val{T: r}
		},
		"echo.NewHTTPError": func(f *Frame, c *ssa.CallCommon, a []Val, st *State) Val {
			u := f.u
			r := u.defs.Fresh("httperr", SInt)
			u.assume(st, App(">", SBool, r, IntLit(0)))
			return Val{T: r}
		},
	}
}

// benign reports calls with no effect on modelled state (logging, metrics, formatting, clocks).
func benign(name string) bool {
	if name == "" {
		return false
	}
	for _, p := range benignPrefixes {
		if strings.HasPrefix(name, p) {
			return true
		}
	}
	return false
}

var benignPrefixes = []string{
	"(*zap.SugaredLogger).", "(*zap.Logger).", "zap.",
	"(statsd.ClientInterface).", "(*statsd.Client).", "(*statsd.NoOpClient).",
	"fmt.Sprintf", "fmt.Sprint", "fmt.Println", "fmt.Printf", "fmt.Sprintln",
	"time.Now", "time.Since", "time.ParseDuration", "time.Sleep", "time.Unix", "(time.Time).", "(time.Duration).", "time.Duration",
	"strings.", "strconv.", "(*strings.Builder).", "errors.", "(*errors.",
	"math.", "bytes.Equal", "bytes.Compare", "bytes.HasPrefix",
	"(error).Error", "(*echo.HTTPError).", "(*sync.WaitGroup).", "(*sync.Once).",
	"url.", "(*url.URL).", "filepath.", "path.", "os.Getenv", "(fmt.Stringer).",
	"(context.Context).", "context.", "(*context.",
	"uuid.", "(uuid.UUID).", "runtime.", "debug.", "reflect.TypeOf", "(reflect.Type).",
	"(*bus.", "log.",
}

// BenignPrefixes is reported in evidence.
func BenignPrefixes() []string { return benignPrefixes }

// Fixed-width integer encodings in byte buffers are modelled as records: class Enc.<kind> maps (array id, byte offset)
// to the integer written there. Partial overlaps between differently placed fields are not modelled (the repository
// writes fields at fixed, disjoint offsets).
func encClass(kind string) string { return "Enc." + kind }

func encPut(kind string) intrinsic {
	intrinsicMods["(binary."+endianName(kind)+").Put"+widthName(kind)] = []string{encClass(kind)}
	return func(f *Frame, c *ssa.CallCommon, a []Val, st *State) Val {
		u := f.u
		// a[0] is the receiver value, a[1] the buffer, a[2] the value
		buf, v := a[len(a)-2].T, a[len(a)-1].T
		cls := encClass(kind)
		srt := ArraySort(SInt, ArraySort(SInt, SInt))
		arr := u.heapGet(st, cls, srt)
		id := App("s_arr", SInt, buf)
		u.retainedWrite(st, id)
		u.heapSet(st, cls, u.defs.Define("H_"+cls, Store(arr, id, Store(Select(arr, id), App("s_off", SInt, buf), v))))
		return Val{}
	}
}

func encGet(kind string) intrinsic {
	return func(f *Frame, c *ssa.CallCommon, a []Val, st *State) Val {
		u := f.u
		buf := a[len(a)-1].T
		cls := encClass(kind)
		srt := ArraySort(SInt, ArraySort(SInt, SInt))
		arr := u.heapGet(st, cls, srt)
		r := u.defs.Define("dec_"+kind, Select(Select(arr, App("s_arr", SInt, buf)), App("s_off", SInt, buf)))
		hi := map[string]string{"64": "18446744073709551615", "32": "4294967295", "16": "65535"}[kind[2:]]
		u.assume(st, And(App("<=", SBool, IntLit(0), r), App("<=", SBool, r, BigIntLit(hi))))
		return Val{T: r}
	}
}

func endianName(kind string) string {
	if kind[:2] == "LE" {
		return "littleEndian"
	}
	return "bigEndian"
}
func widthName(kind string) string { return "Uint" + kind[2:] }

// db.View(fn) / db.Update(fn): run fn exactly once in a fresh transaction and return its error
// (Update commits iff fn returns nil: the commit itself is ghost state of the kv prelude).
func applyOnceTxn(update bool) intrinsic {
	return func(f *Frame, c *ssa.CallCommon, a []Val, st *State) Val {
		u := f.u
		fn := a[len(a)-1]
		txn := u.newAddr(st, "txn")
		if gs, ok := st.ghost["$txnUpdate"]; ok {
			st.ghost["$txnUpdate"] = u.defs.Define("txnupd", Store(gs, txn, BoolLit(update)))
		}
		if r, ok := f.callFnValue(fn, []Val{{T: txn}}, st, c.Signature(), "txnbody"); ok {
			u.AssumedUse["(*badger.DB).View/Update run their function argument exactly once in a fresh transaction (closure inlined)"] = true
			if update && r.T.S != "" && r.T.Sort == SIface {
				// Update returns the function's error, and when that is nil the outcome of the commit (which may fail)
				ce := u.defs.Fresh("commit_err", SIface)
				nilI := Term{"nil_iface", SIface}
				r = Val{T: u.defs.Define("upd_err", Ite(Eq(r.T, nilI), ce, r.T)), Ty: r.Ty}
			}
			return r
		}
		u.abstractf("%s: transaction body passed to View/Update is not a visible closure: heap havoced", u.name)
		u.havocAll(st)
		return resultVal(u, st, c.Signature(), "r_txn")
	}
}

// item.Value(fn): fn(value bytes of the item) exactly once, returning its error.
func applyOnceValue(f *Frame, c *ssa.CallCommon, a []Val, st *State) Val {
	u := f.u
	item := a[0]
	fn := a[len(a)-1]
	// the value: a byte slice determined by the item (spec function itemVal in the kv prelude)
	val := u.defs.Fresh("itemval", SSlice)
	u.assume(st, typeFacts(val, types.NewSlice(types.Typ[types.Uint8])))
	u.assume(st, Eq(App("s_arr", SInt, val), App("item_val_arr", SInt, item.T)))
	u.assume(st, Eq(App("s_off", SInt, val), IntLit(0)))
	if r, ok := f.callFnValue(fn, []Val{{T: val, Ty: types.NewSlice(types.Typ[types.Uint8])}}, st, c.Signature(), "valuebody"); ok {
		u.AssumedUse["(*badger.Item).Value runs its function argument exactly once on the item's value (closure inlined)"] = true
		return r
	}
	u.abstractf("%s: function passed to Item.Value is not a visible closure: heap havoced", u.name)
	u.havocAll(st)
	return resultVal(u, st, c.Signature(), "r_value")
}

func atomicAdd(f *Frame, c *ssa.CallCommon, a []Val, st *State) Val {
	u := f.u
	elem := c.Args[0].Type().Underlying().(*types.Pointer).Elem()
	cur := f.load(a[0], elem, st)
	nv := u.defs.Define("atomic_add", App("+", SInt, cur.T, a[1].T))
	f.store(a[0], Val{T: nv}, elem, st)
	return Val{T: nv}
}

func atomicLoad(f *Frame, c *ssa.CallCommon, a []Val, st *State) Val {
	elem := c.Args[0].Type().Underlying().(*types.Pointer).Elem()
	return f.load(a[0], elem, st)
}
