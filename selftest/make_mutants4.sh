#!/bin/bash
# fourth batch of the must-fail corpus: storage / id helpers, dataset meta entity, related-entity assembly (same conventions)
set -e
wt=/var/tmp/mutgen-$$
git -C /repo worktree add -q --detach "$wt" HEAD
out=/verif/selftest/mutants
mk() { id="$1"; prop="$2"; file="$3"; expr="$4"; expect="$5"
  ( cd "$wt" && sed -i "$expr" "$file" && git diff > "$out/$id.patch" && git checkout -q -- . )
  if [ ! -s "$out/$id.patch" ]; then echo "mutant $id produced no change"; rm -f "$out/$id.patch"; return; fi
  printf '{"id":"%s","property":"%s","expect":"%s"}\n' "$id" "$prop" "$expect" > "$out/$id.json"
}
S=internal/server
mk c03-related-result-slot   C03 $S/store.go 's|^\t\tresult\[i\] = r$|\t\tresult[i/2] = r|' 'getRelatedEntitiesAtTime'
mk c03-related-wrong-entity  C03 $S/store.go 's|relatedEntity, err := s.GetEntityWithInternalID(r.EntityID, from.Datasets, mergePartials)|relatedEntity, err := s.GetEntityWithInternalID(r.PredicateID, from.Datasets, mergePartials)|' 'related-entity-is-loaded-for-the-relations-id'
mk c03-related-scope-dropped C03 $S/store.go 's|relatedEntity, err := s.GetEntityWithInternalID(r.EntityID, from.Datasets, mergePartials)|relatedEntity, err := s.GetEntityWithInternalID(r.EntityID, nil, mergePartials)|' 'related-entity-is-loaded-for-the-relations-id'
mk c03-related-cont-dropped  C03 $S/store.go 's|return RelatedEntitiesResult{Relations: result, Continuation: cont}, nil|if len(result) > 0 {\n\t\tcont = nil\n\t}\n\treturn RelatedEntitiesResult{Relations: result, Continuation: cont}, nil|' 'continuation-of-the-scan-is-handed-on'
mk c14-storevalue-wrong-value C14 $S/store.go 's|^\t\terr := txn.Set(key, value)$|\t\terr := txn.Set(key, key)|' 'the-callers-key-and-value-are-the-ones-written'
mk c14-storevalue-swallow    C14 $S/store.go '/func (s \*Store) storeValue/,/^}/ s|^\t\treturn err$|\t\t_ = err\n\t\treturn nil|' 'acknowledged-write-stored'
mk c14-storagekey-offset     C14 $S/dataset.go 's|^\tcopy(key\[2:\], ds.ID)$|\tcopy(key[1:], ds.ID)|' 'record-key-is-the-registry-prefix'
mk c04-idtxn-kept            C04 $S/store.go '/func (s \*Store) commitIDTxn/,/^}/ s|^\ts.idtxn = nil$|\t_ = err|' 'acknowledged-id-commit-leaves-no-pending'
mk c13-uri-key-truncated     C13 $S/store.go '/func (s \*Store) getIDForURI/,/^}/ s|^\tcopy(uribuf\[2:\], uriAsBytes)$|\tcopy(uribuf[2:], uriAsBytes[1:])|' 'id-looked-up-in-the-callers-transaction'
mk c13-id-key-wrong-index    C13 $S/store.go '/func (s \*Store) getURIForID/,/^}/ s|binary.BigEndian.PutUint16(buf, IDToURIIndexID)|binary.BigEndian.PutUint16(buf, URIToIDIndexID)|' 'uri-looked-up-under-the-id-index-key'
mk c19-meta-items-start      C19 $S/dsmanager.go 's|^\tentity.Properties\[prefix+":items"\] = 0$|\tentity.Properties[prefix+":items"] = 1|' 'items-counter-starting-at-zero'
mk c19-meta-batch-empty      C19 $S/dsmanager.go '/func (dsm \*DsManager) storeEntity/,/^}/ s|^\t\tentity,$|\t\tentity, entity,|' 'meta-entity-stored-as-a-one-element-batch'
mk c19-nsinfo-items-key      C19 $S/store.go 's|NameKey: prefix + ":name", ItemsKey: prefix + ":items",|NameKey: prefix + ":name", ItemsKey: prefix + ":item",|' 'counter-and-name-keys-are-the-ones'
mk c14-reload-wrong-name    C14 $S/store.go '/func (s \*Store) loadDatasets/,/^}/ s|s.datasets.Store(ds.ID, ds)|s.datasets.Store(ds.SubjectIdentifier, ds)|' 'a-reloaded-dataset-is-bound-to-this-store-and-registered-under-its-own-name'
mk c14-reload-no-store      C14 $S/store.go '/func (s \*Store) loadDatasets/,/^}/ s|^\t\tds.store = s$|\t\t_ = s|' 'a-reloaded-dataset-is-bound-to-this-store'
mk c03-scope-wrong-id       C03 $S/store.go '/func (s \*Store) DatasetsToInternalIDs/,/^}/ s|for _, ds := range datasets {|for _, ds := range datasets[:len(datasets)-1] {|' 'DatasetsToInternalIDs'
mk c04-txn-commits-own-ids  C04 $S/store.go 's|if err := ds.store.commitIDTxn(); err != nil {|_ = ds\n\t\tif err := s.commitIDTxn(); err != nil {|' 'the-id-transaction-committed-is-that-of-the-written-datasets-own-store'
mk c02-token-below-examined C02 $S/dataset.go 's|^\t\treturn lastSeen + 1, nil$|\t\treturn lastSeen, nil|' 'token'
mk c07-ctx-stale-deleted-lookup C07 $S/store.go 's|datasetDeleted := s.deletedSet()\[currentDatasetID\]|datasetDeleted := s.deletedDatasets[currentDatasetID]|' 'versions-of-deleted-datasets-are-never-candidates'
mk c07-ctx-stale-deleted-query  C07 $S/store.go '0,/if s.deletedSet()\[datasetID\] || !datasetIncluded {/ s|if s.deletedSet()\[datasetID\] \|\| !datasetIncluded {|if s.deletedDatasets[datasetID] \|\| !datasetIncluded {|' 'GetRelatedAtTime'
mk c07-ctx-parent-of-parent     C07 $S/store.go '/^func NewContextualStore/,/^}/ s|if store.parent != nil {|if store.parent == nil {|' 'a-contextual-store-filters-with-the-deleted-set-published'
mk c02-equal-never           C02 $S/entity.go 's|^\tif !(len(prevJson) == len(thisJson)) {$|\tif !(len(prevJson) == len(thisJson)+1) {|' 'identical-content-is-recognised-as-equal'
git -C /repo worktree remove --force "$wt"
