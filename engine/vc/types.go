package vc

import (
	"fmt"
	"go/types"
	"regexp"
	"sort"
	"strings"

	"golang.org/x/tools/go/ssa"
)

// Prelude emitted at the top of every query.
const smtHeader = `(declare-datatypes ((Slice 0)) (((mk_slice (s_arr Int) (s_off Int) (s_len Int) (s_cap Int)))))
(declare-datatypes ((Iface 0)) (((mk_iface (ityp Int) (iint Int) (istr String) (ibool Bool) (ireal Real)))))
(define-fun nil_iface () Iface (mk_iface 0 0 "" false 0.0))
(define-fun nil_slice () Slice (mk_slice 0 0 0 0))
(define-fun go_div ((a Int) (b Int)) Int (ite (>= a 0) (ite (> b 0) (div a b) (- (div a (- b)))) (ite (> b 0) (- (div (- a) b)) (div (- a) (- b)))))
(define-fun go_mod ((a Int) (b Int)) Int (- a (* b (go_div a b))))
(declare-fun sl_idx (Slice Int) Int)
(define-fun fld_addr ((a Int) (i Int)) Int (+ (* a 1000000007) i))
(declare-fun item_val_arr (Int) Int)
(declare-fun err_is (Iface Iface) Bool)
(declare-fun atoi_val (String) Int)
(declare-fun atoi_err (String) Iface)
(declare-fun bit_and (Int Int) Int)
(declare-fun bit_or (Int Int) Int)
(declare-fun bit_xor (Int Int) Int)
(declare-fun bit_shl (Int Int) Int)
(declare-fun bit_shr (Int Int) Int)
(declare-fun box_slice (Slice) Int)
(declare-fun unbox_slice (Int) Slice)
(declare-fun str_bytes (String) (Array Int Int))
(declare-fun bytes_str ((Array Int Int) Int Int) String)
(define-fun itoa ((n Int)) String (ite (>= n 0) (str.from_int n) (str.++ "-" (str.from_int (- n)))))
(declare-fun atoi (String) Int)
(declare-fun atoi_ok (String) Bool)
`

// quantified header axioms, added to a query only when the symbol occurs in it (quantifiers in a query make the
// solvers answer "unknown" instead of "sat", which weakens vacuity probes and counterexamples)
var headerAxioms = []struct{ sym, text string }{
	{"sl_idx", "(assert (forall ((s Slice) (i Int)) (! (= (sl_idx s i) (+ (s_off s) i)) :pattern ((sl_idx s i)))))\n"},
	{"box_slice", "(assert (forall ((s Slice)) (! (= (unbox_slice (box_slice s)) s) :pattern ((box_slice s)))))\n"},
	// string(b) of b = []byte(s) gives s back (only added when a query converts in both directions)
	{"bytes_str", "(assert (forall ((s String)) (! (= (bytes_str (str_bytes s) 0 (str.len s)) s) :pattern ((str_bytes s)))))\n"},
}

// canonical short name for a package path
func pkgShort(path string) string {
	if i := strings.LastIndex(path, "/"); i >= 0 {
		path = path[i+1:]
	}
	return path
}

// typeStr renders a type with short package qualifiers.
func typeStr(t types.Type) string {
	return canonAliases(types.TypeString(t, func(p *types.Package) string { return p.Name() }))
}

var aliasRe = regexp.MustCompile(`\b(byte|rune)\b`)

// canonAliases writes the predeclared aliases byte and rune as the types they denote, so that []byte and []uint8 (one
// type in Go) share one heap class and one dynamic type id.
func canonAliases(s string) string {
	if !strings.Contains(s, "byte") && !strings.Contains(s, "rune") {
		return s
	}
	return aliasRe.ReplaceAllStringFunc(s, func(m string) string {
		if m == "byte" {
			return "uint8"
		}
		return "int32"
	})
}

// canonFn renders a function name canonically: pkg.F, (*pkg.T).M, (pkg.T).M, pkg.F$1.
func canonFn(fn *ssa.Function) string {
	if fn == nil {
		return "<nil>"
	}
	if fn.Parent() != nil { // anonymous: parent$N
		s := fn.Name()
		// fn.Name() is e.g. "sync$1"; prefix with parent canonical minus its own name
		par := fn.Parent()
		// strip trailing "$N" chain relative to root
		root := par
		for root.Parent() != nil {
			root = root.Parent()
		}
		rn := canonFn(root)
		// fn.Name() for nested closures is like "Run$1$2"; take suffix after root's Name()
		suffix := strings.TrimPrefix(s, root.Name())
		return rn + suffix
	}
	if recv := fn.Signature.Recv(); recv != nil {
		return "(" + typeStr(recv.Type()) + ")." + fn.Name()
	}
	if fn.Pkg != nil {
		return fn.Pkg.Pkg.Name() + "." + fn.Name()
	}
	// synthetic wrappers, generics instantiations etc.
	if fn.Object() != nil && fn.Object().Pkg() != nil {
		return fn.Object().Pkg().Name() + "." + fn.Name()
	}
	return fn.String()
}

// canonInvoke renders an interface method call target: (pkg.Iface).M
func canonInvoke(c *ssa.CallCommon) string {
	return "(" + typeStr(c.Value.Type()) + ")." + c.Method.Name()
}

// qualifyUnitName adds the package short name to an unqualified contract unit name.
func qualifyUnitName(name, pkg string) string {
	name = strings.TrimSpace(name)
	if pkg == "" {
		return name
	}
	if strings.HasPrefix(name, "(") {
		// (*T).M or (T).M or (*pkg.T).M
		end := strings.Index(name, ")")
		if end < 0 {
			return name
		}
		recv := name[1:end]
		star := ""
		if strings.HasPrefix(recv, "*") {
			star = "*"
			recv = recv[1:]
		}
		if !strings.Contains(recv, ".") {
			recv = pkg + "." + recv
		}
		return "(" + star + recv + ")" + name[end+1:]
	}
	// F, F$1, pkg.F
	base := name
	if i := strings.Index(base, "$"); i >= 0 {
		base = base[:i]
	}
	if !strings.Contains(base, ".") {
		return pkg + "." + name
	}
	return name
}

// ---------------------------------------------------------------------------

func isIntKind(b *types.Basic) bool { return b.Info()&types.IsInteger != 0 }

// sortOf maps a Go type to an SMT sort.
func sortOf(t types.Type) Sort {
	switch u := t.Underlying().(type) {
	case *types.Basic:
		switch {
		case u.Info()&types.IsBoolean != 0:
			return SBool
		case u.Info()&types.IsString != 0:
			return SString
		case u.Info()&types.IsInteger != 0:
			return SInt
		case u.Info()&types.IsFloat != 0:
			return SReal
		case u.Kind() == types.UnsafePointer:
			return SInt
		case u.Kind() == types.UntypedNil:
			return SInt
		}
		return SInt
	case *types.Slice:
		return SSlice
	case *types.Interface:
		return SIface
	case *types.Pointer, *types.Map, *types.Chan, *types.Signature, *types.Struct, *types.Array, *types.Tuple:
		return SInt
	}
	return SInt
}

func zeroOf(s Sort) Term {
	switch s {
	case SInt:
		return IntLit(0)
	case SBool:
		return False
	case SString:
		return StrLit("")
	case SReal:
		return Term{"0.0", SReal}
	case SSlice:
		return Term{"nil_slice", SSlice}
	case SIface:
		return Term{"nil_iface", SIface}
	}
	if strings.HasPrefix(string(s), "(Array ") {
		// cvc5 wants a literal value inside a constant array
		inner := zeroOf(arrayValSort(s)).S
		switch arrayValSort(s) {
		case SIface:
			inner = "(mk_iface 0 0 \"\" false 0.0)"
		case SSlice:
			inner = "(mk_slice 0 0 0 0)"
		}
		return Term{fmt.Sprintf("((as const %s) %s)", s, inner), s}
	}
	return IntLit(0)
}

// intRange returns bounds for fixed-width integer types (as decimal strings), ok=false for non-integers.
func intRange(t types.Type) (lo, hi string, ok bool) {
	b, isB := t.Underlying().(*types.Basic)
	if !isB || !isIntKind(b) {
		return "", "", false
	}
	switch b.Kind() {
	case types.Int8:
		return "-128", "127", true
	case types.Int16:
		return "-32768", "32767", true
	case types.Int32:
		return "-2147483648", "2147483647", true
	case types.Int, types.Int64, types.UntypedInt:
		return "-9223372036854775808", "9223372036854775807", true
	case types.Uint8:
		return "0", "255", true
	case types.Uint16:
		return "0", "65535", true
	case types.Uint32:
		return "0", "4294967295", true
	case types.Uint, types.Uint64, types.Uintptr:
		return "0", "18446744073709551615", true
	}
	return "", "", false
}

// typeFacts returns the well-formedness facts for a value of Go type t.
func typeFacts(v Term, t types.Type) Term {
	switch u := t.Underlying().(type) {
	case *types.Basic:
		if lo, hi, ok := intRange(u); ok {
			return And(App("<=", SBool, BigIntLit(lo), v), App("<=", SBool, v, BigIntLit(hi)))
		}
	case *types.Slice:
		return And(
			App(">=", SBool, App("s_len", SInt, v), IntLit(0)),
			App(">=", SBool, App("s_off", SInt, v), IntLit(0)),
			App(">=", SBool, App("s_arr", SInt, v), IntLit(0)),
			App(">=", SBool, App("s_cap", SInt, v), App("s_len", SInt, v)),
			Implies(Eq(App("s_arr", SInt, v), IntLit(0)), Eq(v, Term{"nil_slice", SSlice})),
		)
	case *types.Pointer, *types.Map, *types.Chan:
		return App(">=", SBool, v, IntLit(0))
	}
	return True
}

// ---------------------------------------------------------------------------
// Heap classes

// structKey is the canonical name of a named struct type (pkg.Type) or a literal description.
func structKey(t types.Type) string {
	if p, ok := t.Underlying().(*types.Pointer); ok && !isNamed(t) {
		t = p.Elem()
	}
	if n, ok := t.(*types.Named); ok {
		if n.Obj().Pkg() != nil {
			return n.Obj().Pkg().Name() + "." + n.Obj().Name()
		}
		return n.Obj().Name()
	}
	if a, ok := t.(*types.Alias); ok {
		return structKey(types.Unalias(a))
	}
	return sanitize(typeStr(t))
}

func isNamed(t types.Type) bool {
	_, ok := t.(*types.Named)
	return ok
}

func fieldClass(structT types.Type, path []string) string {
	return "F." + structKey(structT) + "." + strings.Join(path, ".")
}
func cellClass(elem types.Type) string { return "Cell." + sanitize(typeStr(elem)) }
func elemClass(elem types.Type) string { return "Elem." + sanitize(typeStr(elem)) }
func mapDomClass(m *types.Map) string {
	return "MapDom." + sanitize(typeStr(m.Key())) + "." + sanitize(typeStr(m.Elem()))
}
func mapValClass(m *types.Map) string {
	return "MapVal." + sanitize(typeStr(m.Key())) + "." + sanitize(typeStr(m.Elem()))
}
func globalClass(g *ssa.Global) string {
	p := ""
	if g.Pkg != nil {
		p = g.Pkg.Pkg.Name() + "."
	}
	return "G." + p + g.Name()
}

// type ids for interface tags
type typeIDs struct {
	ids   map[string]int
	names []string
}

func (t *typeIDs) id(ty types.Type) int {
	if t.ids == nil {
		t.ids = map[string]int{}
	}
	k := typeStr(ty)
	if id, ok := t.ids[k]; ok {
		return id
	}
	id := len(t.ids) + 1
	t.ids[k] = id
	t.names = append(t.names, k)
	return id
}

func sortedKeys[V any](m map[string]V) []string {
	var ks []string
	for k := range m {
		ks = append(ks, k)
	}
	sort.Strings(ks)
	return ks
}
