#!/bin/bash
# usage: tools_tryseed.sh <seed-id> [prop]  -- applies the seed's patch to /repo's WORKING TREE (so uncommitted contract edits are
# in effect), runs the property's check with evidence/replay output in a scratch directory, and reverses the patch again
id=$1
d=/verif/seeded/$id
prop=${2:-$(python3 -c "import json;print(json.load(open('$d/meta.json'))['breaks_property'])")}
OUT=/var/tmp/tryseed-out-$$
mkdir -p $OUT
git -C /repo apply "$d/patch.diff" || { echo "apply failed"; exit 2; }
trap 'git -C /repo apply -R "$d/patch.diff"; rm -rf $OUT' EXIT
VERIF_OUT=$OUT /verif/bin/vcgen check "$prop" 2>&1 | grep -E "VIOLATION|failed:|^OK" | head -${LINES_MAX:-6}
