#!/usr/bin/env python3
# regenerates section 8 of DESIGN.md (between the SEC8 markers) from seeded/*/meta.json and selftest/mutants/*.json
import json,glob,re,os
rows=[]
for d in sorted(glob.glob('/verif/seeded/*/meta.json')):
    m=json.load(open(d))
    sid=m['id']
    patch=open(os.path.dirname(d)+'/patch.diff').read()
    files=sorted(set(re.findall(r'^\+\+\+ b/(\S+)',patch,re.M)))
    need=(m.get('needs_to_manifest') or '').strip().split('\n')
    # first informative line of the notes
    first=''
    for l in need:
        l=l.strip()
        if len(l)>25 and not set(l)<=set('=-'):
            first=l; break
    obl=[re.sub(r' \[.*\]$','',o) for o in (m.get('failed_obligations') or [])]
    kinds=sorted(set(re.findall(r'\[([^\]]+)\]',' '.join(m.get('failed_obligations') or []))))
    conf=m.get('confirmed',{})
    ok=all(conf.get(k) for k in ('builds_with_patch','demo_passes_without_patch','demo_fails_with_patch','full_suite_passes_with_patch'))
    rows.append((sid,m['breaks_property'],', '.join(f.replace('internal/','') for f in files),first[:150],'yes' if m.get('detected_by_check') else ('NO' if m.get('detected_by_check') is False else '?'),'; '.join(o.split(').')[-1] if ').' in o else o for o in obl[:2]),'/'.join(kinds),'yes' if ok else 'no'))
out=['## 8. Seeded breaking changes and what catches them','',
 'Each change below was written by a fresh sub-agent that was given only the property text and a scratch worktree',
 '(contract files removed), then confirmed here in a scratch worktree: it builds, its demonstration test fails with the',
 'change and passes without it, and the full suite passes with it (`seeded/<id>/meta.json`: what was run). `tools_seedcheck.sh`',
 'applies each to a scratch worktree and runs the check of the property it breaks; the table is generated from the',
 'recorded outcome (`refuted` = a solver produced a counterexample to the obligation, `undischarged` = no solver proves it',
 'any more, `undischarged-structure-changed` = an obligation of the committed baseline is no longer generated).','',
 '| seed | prop | file(s) | what it needs to manifest (first line of the agent\'s notes) | caught | failing obligation(s) (first two) | verdict | confirmed |',
 '|---|---|---|---|---|---|---|---|']
for r in rows:
    out.append('| '+' | '.join(x.replace('|','\\|') for x in r)+' |')
n=len(rows); det=sum(1 for r in rows if r[4]=='yes')
out+=['',f'{det} of {n} seeded changes are caught by the check of the property they break.','',
 'Checks strengthened because a seeded change was first missed (history): C01 listing token arithmetic (MapEntitiesRaw put under',
 'contract); C03 incoming continuation dropped when the page fills on the last referrer (`incoming-page-that-filled-up…`),',
 'C03 outgoing tombstones skipped before the seen bookkeeping (`every-scanned-passing-outgoing-key-is-recorded…`); C12 flush',
 'before collect (`forEntity$1` put under contract); C14 rename writes the record under the old key (`UpdateDataset` under',
 'contract, `recordName`); C09 end request skipping the lease refresh (web handler under contract), C09 completion batch',
 'dropping the 1001st entity (`tombstone-of-this-entity-is-part-of-the-batch-flushed…`); C02 exhausted reverse iterator',
 'forgetting its position (iterator.go under contract); C06 early `break` in the point-in-time scan (`scan-stops-only-when…`);',
 'earlier waves: see the commit messages of /verif (`Strengthen C05 C07 C09 C15 C19 after wave-3 mutations`, …).','',
 'Wave 10 (seeds m5/m6, C01 m7/m8; the agents were told to stay away from the obvious function): 25 of its 40 changes were first',
 'missed. What was added for them: the timestamp obligations of the two writers attributed to C01/C03/C06 (three agents',
 'independently moved `txnTime` in front of the locks of `ExecuteTransaction`); reverse change feed writes every entry it moved',
 'past (`getChangesHandler`), token codec `safe conv`; `GetManyRelatedEntitiesAtTime` hands on every relation of a start point;',
 '`moveValue` attributed to C04/C14; `Store.idtxn` guarded by the (interface-held) id lock, `lock:held-at-use` for maps read',
 'out of guarded fields (`BadgerAccess`); latest pointer read in the page\'s own transaction; listing bounded by the addressed',
 'dataset for any token (the token precondition was dropped); change page ends only when exhausted or full; HTTP sink sync',
 'headers, `startFullSync`; `JavascriptTransform.transformEntities`, `HTTPDatasetSource.ReadEntities` (closing page),',
 '`handleJobError` keys, `job.Run` handler reset only with the ticket, `toTriggeredJobs` (one pipeline per trigger);',
 '`findChangeLogKeys` (iterator-owned buffers), the EGDM shim split rule, `updateDataset` namespace persistence,',
 '`NewTokenProviders` lower-case keys, `NewAuthorizer`, `ExecuteTransaction` counters (`loop N exit` anchors),',
 '`NewBackupManager` cursor, `Store.Delete`. Two older seeds (C04-m1, C04-m3) were ported onto the tree after fix b295dc0',
 '(`patch.orig.diff` keeps the original); three more (C07-m2, C07-m4, C20-m5) onto the tree after fix 21e81cb.','',
 'Wave 11 (seeds m7/m8, C01/C03 m9/m10; the agents were told to look two layers away from the central functions): 21 of its',
 '40 changes were first missed, most of them because the obligation that fails lives in the check of ANOTHER property',
 '(compaction obligations vs. the reader properties C01/C02/C03/C18, delete ordering vs. C04, id commit vs. C13, dependency',
 'tokens vs. C04, the shared parser vs. C01): those obligations are now attributed to every property that relies on them, and',
 'the property package lists were widened accordingly. Genuinely new obligations: reverse feed closes without a token only at',
 'position 0 and never hands out position 0; jobs never run on the goroutine that emitted the dataset event (`$onEmitter`);',
 'expired lease leaves no lease behind (`RefreshFullSyncLease$1`); HTTP sink delivery means status 200, one namespace context',
 'per batch; a rejected batch fails the full sync; proxy source read arguments; external-transform entities keep their deleted',
 'flag; dependency errors reach the pipeline unchanged; record serialised with the new namespace list in place; the outgoing',
 'scan\'s pass predicate made a function of the key alone (an early `continue` of a passing key now fails); repeated-reference',
 'test against the remembered version; source full-sync mode entered once; `AsEntity` recover guard.','',
 'Wave 12 (seeds m9/m10, C01/C03 m11/m12): 3 of its 40 changes were first missed. C04-m9 hoists the key buffers of the',
 '"reference went away" markers out of the inner loop - every key handed to `txn.Set` is still laid out correctly at the call,',
 'but badger keeps the slice until commit, so all markers of a predicate end up with the last key: caught since the engine has',
 'hand-over sets (`retains key, val` on `Txn.Set`; obligation `retained:…`). C02-m9 decodes the in-batch predecessor into the',
 'entity already filled from the stored version (json.Unmarshal merges): caught by `consumes v` on `json.Unmarshal`',
 '(`once@Unmarshal#1`). C18-m10 reads the change entry of the previous run with the latest-only flag: the query goroutine of a',
 'dependency join (`processDependency$1`) was not under contract; it is now (first query per start point, paging, back-dated',
 'query, every result sent on - send anchors).','',
 'Wave 13 (8 agents, C02 C05 C08 C09 C13 C15 C17 C19, told to stay away from the central functions): 6 of its 16 changes were',
 'first missed. Four by attribution only (the failing obligation existed in the check of another property): the 1001st',
 'tombstone of a completion batch (C09 obligation, now also C08), the POST handler batch closure (C01/C04, now also C15), the',
 'lock obligations of the counter update (C19/C14, now also C05: a second dataset write lock under core.Dataset\'s is a lock',
 'order violation). Genuinely new: the EGDM shim must let a hash win over a later slash (`indexOf(fullG, "#") <= 0` on the',
 'slash branch); the meta entity is read from core.Dataset alone on rename and delete; `toMap` leaves a tagged field out only',
 'when it is an omitempty field holding its zero value (C02-m11, ported onto the tree after fix 2d56ca0) - writing that',
 'contract is what made the converse fail on the unchanged tree (D21, section 7.1).','',
 'Hand-made must-fail corpus: `selftest/mutants/*.patch` ('+str(len(glob.glob('/verif/selftest/mutants/*.patch')))+' mutants, each with the obligation it must fail in its `.json`),',
 'run together with the seeds by `selftest/run.sh`.','']
txt='\n'.join(out)
p='/verif/DESIGN.md'
s=open(p).read()
if '@@SEC8@@' in s:
    s=s.replace('@@SEC8@@','<!-- SEC8-BEGIN -->\n'+txt+'\n<!-- SEC8-END -->')
else:
    a=s.index('<!-- SEC8-BEGIN -->'); b=s.index('<!-- SEC8-END -->')
    s=s[:a]+'<!-- SEC8-BEGIN -->\n'+txt+'\n'+s[b:]
open(p,'w').write(s)
print(det,'of',n)
