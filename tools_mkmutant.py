#!/usr/bin/env python3
# usage: tools_mkmutant.py <id> <prop> <expect-substring> <file relative to /repo> <old> <new> [nth]
# writes selftest/mutants/<id>.{patch,json}; the source file is ALWAYS restored (the mutant must compile)
import subprocess,json,sys,os
id,prop,expect,f,old,new=sys.argv[1:7]
nth=int(sys.argv[7]) if len(sys.argv)>7 else 0
os.chdir('/repo')
src=open(f).read()
try:
    if nth:
        idx=-1
        for _ in range(nth): idx=src.index(old,idx+1)
        s=src[:idx]+new+src[idx+len(old):]
    else:
        assert src.count(old)==1,(src.count(old),old)
        s=src.replace(old,new)
    open(f,'w').write(s)
    r=subprocess.run(['go','build','./...'],capture_output=True,text=True)
    if r.returncode!=0:
        print('does not compile:',r.stderr); sys.exit(1)
    d=subprocess.run(['git','diff','--',f],capture_output=True,text=True).stdout
    open('/verif/selftest/mutants/%s.patch'%id,'w').write(d)
    json.dump({"id":id,"property":prop,"expect":expect},open('/verif/selftest/mutants/%s.json'%id,'w'))
    print('wrote',id)
finally:
    open(f,'w').write(src)
