#!/bin/bash
# second batch of the must-fail corpus (same conventions as make_mutants.sh; kept separate so that the first batch is not regenerated)
set -e
wt=/var/tmp/mutgen-$$
git -C /repo worktree add -q --detach "$wt" HEAD
out=/verif/selftest/mutants
mk() { id="$1"; prop="$2"; file="$3"; expr="$4"; expect="$5"
  ( cd "$wt" && sed -i "$expr" "$file" && git diff > "$out/$id.patch" && git checkout -q -- . )
  if [ ! -s "$out/$id.patch" ]; then echo "mutant $id produced no change"; rm -f "$out/$id.patch"; return; fi
  printf '{"id":"%s","property":"%s","expect":"%s"}\n' "$id" "$prop" "$expect" > "$out/$id.json"
}
S=internal/server; J=internal/jobs
mk c06-at-boundary     C06 $S/store.go 's|\t\tif at < recordedTime {|\t\tif at <= recordedTime {|' 'no-eligible-version-is-passed-over'
mk c07-lookup-deleted  C07 $S/store.go 's|\t\tif datasetDeleted \|\| !datasetIncluded {|\t\tif datasetDeleted \&\& !datasetIncluded {|' 'versions-of-deleted-datasets-are-never-candidates'
mk c01-scope-ignored   C01 $S/store.go 's|\t\tif datasetDeleted \|\| !datasetIncluded {|\t\tif datasetDeleted {|' 'versions-outside-the-requested-datasets'
mk c19-config-dropped  C19 $S/dsmanager.go 's|\t\tds.ProxyConfig = createDatasetConfig.ProxyDatasetConfig|\t\tds.ProxyConfig = nil|' 'persisted-record-carries-the-requested-configuration'
mk c18-token-reset     C18 $J/source/multi_source.go 's|d.DependencyTokens\[dep.Dataset\] = \&StringDatasetContinuation{Token: strconv.Itoa(int(continuation))}|d.DependencyTokens[dep.Dataset] = \&StringDatasetContinuation{Token: strconv.Itoa(int(continuation) + 1)}|' 'dependency-token-advanced-to-the-position'
mk c18-implicit-path   C18 $J/source/multi_source_dep_builder.go 's|implicitDep.Joins = dep.Joins\[i+1:\]|implicitDep.Joins = dep.Joins[i:]|' 'implicit-dependency-starts-at-the-hop'
git -C /repo worktree remove --force "$wt"
