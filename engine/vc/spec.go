package vc

import (
	"fmt"
	"strings"
)

// ---------------------------------------------------------------------------
// Spec expression AST

type Expr interface{ exprNode() }

type (
	ELit struct {
		Kind string // int, string, bool, nil
		Val  string
	}
	EIdent struct{ Name string }
	EUnary struct {
		Op string
		X  Expr
	}
	EBinary struct {
		Op   string
		X, Y Expr
	}
	EField struct {
		X    Expr
		Name string
	}
	EIndex struct{ X, I Expr }
	ESlice struct{ X, Lo, Hi Expr }
	ECall  struct {
		Fn   string
		Args []Expr
	}
	EQuant struct {
		Forall bool
		Vars   []Binder
		Body   Expr
	}
	EOld  struct{ X Expr }
	ECond struct{ C, A, B Expr }
)

type Binder struct{ Name, Type string }

func (*ELit) exprNode()    {}
func (*EIdent) exprNode()  {}
func (*EUnary) exprNode()  {}
func (*EBinary) exprNode() {}
func (*EField) exprNode()  {}
func (*EIndex) exprNode()  {}
func (*ESlice) exprNode()  {}
func (*ECall) exprNode()   {}
func (*EQuant) exprNode()  {}
func (*EOld) exprNode()    {}
func (*ECond) exprNode()   {}

// ---------------------------------------------------------------------------
// Lexer

type tok struct {
	kind string // id, int, str, op, eof
	val  string
}

func lex(s string) ([]tok, error) {
	var out []tok
	i := 0
	for i < len(s) {
		c := s[i]
		switch {
		case c == ' ' || c == '\t':
			i++
		case c >= '0' && c <= '9':
			j := i
			for j < len(s) && (s[j] >= '0' && s[j] <= '9' || s[j] == 'x' || s[j] >= 'a' && s[j] <= 'f' && strings.HasPrefix(s[i:], "0x")) {
				j++
			}
			out = append(out, tok{"int", s[i:j]})
			i = j
		case c == '"':
			j := i + 1
			var b strings.Builder
			for j < len(s) && s[j] != '"' {
				if s[j] == '\\' && j+1 < len(s) {
					j++
					switch s[j] {
					case 'n':
						b.WriteByte('\n')
					case 't':
						b.WriteByte('\t')
					default:
						b.WriteByte(s[j])
					}
				} else {
					b.WriteByte(s[j])
				}
				j++
			}
			if j >= len(s) {
				return nil, fmt.Errorf("unterminated string")
			}
			out = append(out, tok{"str", b.String()})
			i = j + 1
		case c == '_' || c == '$' || c >= 'a' && c <= 'z' || c >= 'A' && c <= 'Z':
			j := i
			for j < len(s) && (s[j] == '_' || s[j] == '$' || s[j] >= 'a' && s[j] <= 'z' || s[j] >= 'A' && s[j] <= 'Z' || s[j] >= '0' && s[j] <= '9') {
				j++
			}
			out = append(out, tok{"id", s[i:j]})
			i = j
		default:
			ops := []string{"<==>", "==>", "::", "==", "!=", "<=", ">=", "&&", "||", "<", ">", "+", "-", "*", "/", "%", "!", "(", ")", "[", "]", ",", ".", ":", "?"}
			matched := false
			for _, op := range ops {
				if strings.HasPrefix(s[i:], op) {
					out = append(out, tok{"op", op})
					i += len(op)
					matched = true
					break
				}
			}
			if !matched {
				return nil, fmt.Errorf("unexpected character %q in %q", c, s)
			}
		}
	}
	out = append(out, tok{"eof", ""})
	return out, nil
}

type parser struct {
	toks []tok
	pos  int
	src  string
}

func ParseExpr(s string) (e Expr, err error) {
	toks, err := lex(s)
	if err != nil {
		return nil, err
	}
	p := &parser{toks: toks, src: s}
	defer func() {
		if r := recover(); r != nil {
			err = fmt.Errorf("spec parse error in %q: %v", s, r)
		}
	}()
	e = p.expr()
	if p.peek().kind != "eof" {
		panic(fmt.Sprintf("trailing tokens at %q", p.peek().val))
	}
	return e, nil
}

func (p *parser) peek() tok { return p.toks[p.pos] }
func (p *parser) next() tok { t := p.toks[p.pos]; p.pos++; return t }
func (p *parser) isOp(v string) bool {
	t := p.peek()
	return t.kind == "op" && t.val == v
}
func (p *parser) accept(v string) bool {
	if p.isOp(v) {
		p.pos++
		return true
	}
	return false
}
func (p *parser) expect(v string) {
	if !p.accept(v) {
		panic(fmt.Sprintf("expected %q, got %q", v, p.peek().val))
	}
}

func (p *parser) expr() Expr {
	c := p.iff()
	if p.accept("?") {
		a := p.expr()
		p.expect(":")
		b := p.expr()
		return &ECond{c, a, b}
	}
	return c
}
func (p *parser) iff() Expr {
	x := p.impl()
	for p.accept("<==>") {
		y := p.impl()
		x = &EBinary{"<==>", x, y}
	}
	return x
}
func (p *parser) impl() Expr {
	x := p.or()
	if p.accept("==>") {
		y := p.impl()
		return &EBinary{"==>", x, y}
	}
	return x
}
func (p *parser) or() Expr {
	x := p.and()
	for p.accept("||") {
		x = &EBinary{"||", x, p.and()}
	}
	return x
}
func (p *parser) and() Expr {
	x := p.cmp()
	for p.accept("&&") {
		x = &EBinary{"&&", x, p.cmp()}
	}
	return x
}
func (p *parser) cmp() Expr {
	x := p.add()
	var res Expr
	for {
		t := p.peek()
		if t.kind == "op" && (t.val == "==" || t.val == "!=" || t.val == "<" || t.val == "<=" || t.val == ">" || t.val == ">=") {
			p.pos++
			y := p.add()
			c := &EBinary{t.val, x, y}
			if res == nil {
				res = c
			} else {
				res = &EBinary{"&&", res, c}
			}
			x = y
			continue
		}
		break
	}
	if res != nil {
		return res
	}
	return x
}
func (p *parser) add() Expr {
	x := p.mul()
	for {
		if p.accept("+") {
			x = &EBinary{"+", x, p.mul()}
		} else if p.accept("-") {
			x = &EBinary{"-", x, p.mul()}
		} else {
			return x
		}
	}
}
func (p *parser) mul() Expr {
	x := p.unary()
	for {
		if p.accept("*") {
			x = &EBinary{"*", x, p.unary()}
		} else if p.accept("/") {
			x = &EBinary{"/", x, p.unary()}
		} else if p.accept("%") {
			x = &EBinary{"%", x, p.unary()}
		} else {
			return x
		}
	}
}
func (p *parser) unary() Expr {
	if p.accept("!") {
		return &EUnary{"!", p.unary()}
	}
	if p.accept("-") {
		return &EUnary{"-", p.unary()}
	}
	return p.postfix()
}
func (p *parser) postfix() Expr {
	x := p.primary()
	for {
		switch {
		case p.accept("."):
			t := p.next()
			if t.kind != "id" {
				panic("expected field name")
			}
			x = &EField{x, t.val}
		case p.accept("["):
			var lo, hi Expr
			if p.accept(":") {
				if !p.isOp("]") {
					hi = p.expr()
				}
				p.expect("]")
				x = &ESlice{x, nil, hi}
				continue
			}
			lo = p.expr()
			if p.accept(":") {
				if !p.isOp("]") {
					hi = p.expr()
				}
				p.expect("]")
				x = &ESlice{x, lo, hi}
				continue
			}
			p.expect("]")
			x = &EIndex{x, lo}
		case p.isOp("("):
			id, ok := x.(*EIdent)
			if !ok {
				return x
			}
			p.pos++
			var args []Expr
			if !p.isOp(")") {
				for {
					args = append(args, p.expr())
					if !p.accept(",") {
						break
					}
				}
			}
			p.expect(")")
			if id.Name == "old" && len(args) == 1 {
				x = &EOld{args[0]}
			} else {
				x = &ECall{id.Name, args}
			}
		default:
			return x
		}
	}
}
func (p *parser) primary() Expr {
	t := p.next()
	switch t.kind {
	case "int":
		return &ELit{"int", t.val}
	case "str":
		return &ELit{"string", t.val}
	case "id":
		switch t.val {
		case "true", "false":
			return &ELit{"bool", t.val}
		case "nil":
			return &ELit{"nil", ""}
		case "forall", "exists":
			var vars []Binder
			for {
				n := p.next()
				if n.kind != "id" {
					panic("expected binder name")
				}
				ty := p.typeName()
				vars = append(vars, Binder{n.val, ty})
				if !p.accept(",") {
					break
				}
			}
			p.expect("::")
			body := p.expr()
			return &EQuant{t.val == "forall", vars, body}
		}
		return &EIdent{t.val}
	case "op":
		if t.val == "(" {
			e := p.expr()
			p.expect(")")
			return e
		}
	}
	panic(fmt.Sprintf("unexpected token %q", t.val))
}

// typeName parses a type in binder position: ident, *ident, []T, map[K]V, pkg.T
func (p *parser) typeName() string {
	var b strings.Builder
	for {
		t := p.peek()
		if t.kind == "eof" || t.kind == "op" && (t.val == "," || t.val == "::") {
			break
		}
		b.WriteString(t.val)
		p.pos++
	}
	return b.String()
}

// ---------------------------------------------------------------------------
// Contract files

type Clause struct {
	Kind  string // requires, ensures, invariant, decreases, assert, assume, ghostset, use
	Label string
	Props []string
	Text  string
	E     Expr
	Ghost string // for ghostset: variable name
	Line  string // file:line
}

type LoopSpec struct {
	Ordinal    int
	Invariants []*Clause
	Decreases  *Clause
	At         []*AtSpec // points inside handled at unit level too
}

type AtSpec struct {
	Where   string // e.g. "call CheckGranted#1", "return", "loop 1 exit"
	Clauses []*Clause
	hit     bool
}

type GhostDecl struct {
	Name string
	Type string
	Init Expr
}

type SpecFun struct {
	Name    string
	Params  []Binder
	Ret     string
	Body    Expr // nil => uninterpreted
	Text    string
	Assumed bool // lemma taken as an axiom (listed in the evidence)
	Props   []string // lemma [C02,C08] name(...): a composition lemma proved for these properties even when no unit uses it
}

type Axiom struct {
	Name string
	E    Expr
	Text string
}

type UnitSpec struct {
	Name         string // canonical unit name
	Assumed      bool   // contract taken on trust (callee not verified)
	Props        []string
	Requires     []*Clause
	Ensures      []*Clause
	Modifies     []string // heap classes; nil+ModAll => everything
	Preserves    []string // with no modifies clause: everything is havoced except these classes
	FrameAssumed bool     // the preserves frame of a verified unit is trusted, not proved
	Retains      []string // slice parameters the callee keeps by reference (badger Txn.Set): not to be written afterwards
	Consumes     []string // reference parameters that may be handed to this callee only once (decode targets)
	External     bool     // declared in a package that is not part of this run: used at call sites only
	ModSet       bool     // a modifies/pure line was given
	Pure         bool
	Loops        map[int]*LoopSpec
	ClosureLoops map[string]*LoopSpec // "$1:2" -> spec
	Ats          []*AtSpec
	Ghosts       []*GhostDecl
	Safe         []string
	Inline       bool
	Decr         *Clause // recursion measure
	Calls        map[string][]string
	Dyn          map[string]*UnitSpec // assumed frame of dynamic callees (function-typed parameters), by name
	File         string
	Pkg          string // package path the contract file belongs to ("" for prelude)
	Opts         map[string]string
}

type ContractFile struct {
	Pkg          string
	Units        []*UnitSpec
	Lemmas       []*SpecFun
	Specs        []*SpecFun
	Axioms       []*Axiom
	Consts       map[string]string
	GlobalGhosts map[string]string
	Guarded      []GuardDecl
	Writers      []WritersDecl
	GlobalFacts  map[string]Expr
}

// ParseContracts parses the //@ lines of a contract file.
func ParseContracts(path, pkgName, src string) (*ContractFile, error) {
	cf := &ContractFile{Pkg: pkgName, Consts: map[string]string{}}
	var cur *UnitSpec
	var curLoop *LoopSpec
	var curAt *AtSpec
	lines := strings.Split(src, "\n")
	for ln := 0; ln < len(lines); ln++ {
		raw := strings.TrimSpace(lines[ln])
		if !strings.HasPrefix(raw, "//@") {
			continue
		}
		text := strings.TrimSpace(raw[3:])
		// continuation lines: "//@ |" appends to previous
		for ln+1 < len(lines) {
			nx := strings.TrimSpace(lines[ln+1])
			if strings.HasPrefix(nx, "//@") && strings.HasPrefix(strings.TrimSpace(nx[3:]), "|") {
				text += " " + strings.TrimSpace(strings.TrimSpace(nx[3:])[1:])
				ln++
			} else {
				break
			}
		}
		if i := strings.Index(text, " //"); i >= 0 && !strings.Contains(text[:i], "\"") {
			text = strings.TrimSpace(text[:i])
		}
		if text == "" {
			continue
		}
		where := fmt.Sprintf("%s:%d", path, ln+1)
		kw, rest := splitKw(text)
		mkClause := func(kind, rest string) (*Clause, error) {
			c := &Clause{Kind: kind, Line: where}
			rest = strings.TrimSpace(rest)
			if strings.HasPrefix(rest, "[") {
				end := strings.Index(rest, "]")
				if end < 0 {
					return nil, fmt.Errorf("%s: bad label", where)
				}
				lab := rest[1:end]
				rest = strings.TrimSpace(rest[end+1:])
				if i := strings.LastIndex(lab, ":"); i >= 0 && isPropList(lab[:i]) {
					c.Props = strings.Split(lab[:i], ",")
					lab = lab[i+1:]
				}
				c.Label = lab
			}
			c.Text = rest
			e, err := ParseExpr(rest)
			if err != nil {
				return nil, fmt.Errorf("%s: %v", where, err)
			}
			c.E = e
			return c, nil
		}
		switch kw {
		case "unit", "assumed":
			cur = &UnitSpec{Name: strings.TrimSpace(rest), Assumed: kw == "assumed", Loops: map[int]*LoopSpec{}, File: path, Pkg: pkgName, Calls: map[string][]string{}, Opts: map[string]string{}}
			cf.Units = append(cf.Units, cur)
			curLoop, curAt = nil, nil
		case "spec":
			sf, err := parseSpecFun(rest)
			if err != nil {
				return nil, fmt.Errorf("%s: %v", where, err)
			}
			cf.Specs = append(cf.Specs, sf)
		case "axiomlemma":
			i := strings.Index(rest, "):")
			if i < 0 {
				return nil, fmt.Errorf("%s: axiomlemma needs 'name(params): expr'", where)
			}
			sf, err := parseSpecFun(rest[:i+1] + " bool = " + rest[i+2:])
			if err != nil {
				return nil, fmt.Errorf("%s: %v", where, err)
			}
			sf.Assumed = true
			cf.Lemmas = append(cf.Lemmas, sf)
		case "lemma":
			// lemma [props] name(params): body   -- instantiated explicitly with "use"; proved from the axioms as obligation lemma:name
			var lprops []string
			if strings.HasPrefix(rest, "[") {
				if end := strings.Index(rest, "]"); end > 0 {
					lprops = strings.Split(strings.ReplaceAll(rest[1:end], " ", ""), ",")
					rest = strings.TrimSpace(rest[end+1:])
				}
			}
			i := strings.Index(rest, "):")
			if i < 0 {
				return nil, fmt.Errorf("%s: lemma needs 'name(params): expr'", where)
			}
			sf, err := parseSpecFun(rest[:i+1] + " bool = " + rest[i+2:])
			if err != nil {
				return nil, fmt.Errorf("%s: %v", where, err)
			}
			sf.Props = lprops
			cf.Lemmas = append(cf.Lemmas, sf)
		case "axiom":
			i := strings.Index(rest, ":")
			if i < 0 {
				return nil, fmt.Errorf("%s: axiom needs 'name: expr'", where)
			}
			e, err := ParseExpr(strings.TrimSpace(rest[i+1:]))
			if err != nil {
				return nil, fmt.Errorf("%s: %v", where, err)
			}
			cf.Axioms = append(cf.Axioms, &Axiom{Name: strings.TrimSpace(rest[:i]), E: e, Text: rest[i+1:]})
		case "inline":
			// inline <function>: calls are replaced by the callee body (small helpers returning closures)
			if cur == nil || !strings.Contains(rest, ".") && rest != "" {
			}
			if rest != "" {
				is := &UnitSpec{Name: strings.TrimSpace(rest), Assumed: true, Inline: true, Loops: map[int]*LoopSpec{}, File: path, Pkg: pkgName, Calls: map[string][]string{}, Opts: map[string]string{}}
				cf.Units = append(cf.Units, is)
				continue
			}
			if cur != nil {
				cur.Inline = true
			}
		case "global":
			// global pkg.Name: expr over v   (assumed fact about a package-level variable's value, e.g. library defaults)
			i := strings.Index(rest, ":")
			if i < 0 {
				return nil, fmt.Errorf("%s: global needs 'pkg.Name: expr'", where)
			}
			e, err := ParseExpr(strings.TrimSpace(rest[i+1:]))
			if err != nil {
				return nil, fmt.Errorf("%s: %v", where, err)
			}
			if cf.GlobalFacts == nil {
				cf.GlobalFacts = map[string]Expr{}
			}
			cf.GlobalFacts[strings.TrimSpace(rest[:i])] = e
		case "writers":
			// writers Type.field: fn, fn, ...   (only these functions may assign the field or update the map/slice it holds)
			var wprops []string
			if strings.HasPrefix(rest, "[") {
				end := strings.Index(rest, "]")
				wprops = strings.Split(rest[1:end], ",")
				rest = strings.TrimSpace(rest[end+1:])
			}
			i := strings.Index(rest, ":")
			if i < 0 || !strings.Contains(rest[:i], ".") {
				return nil, fmt.Errorf("%s: writers needs '[props] Type.field: fn, fn'", where)
			}
			tf := strings.SplitN(strings.TrimSpace(rest[:i]), ".", 2)
			wd := WritersDecl{Pkg: pkgName, Type: tf[0], Field: tf[1], Props: wprops}
			for _, w := range strings.Split(rest[i+1:], ",") {
				wd.Allowed = append(wd.Allowed, qualifyUnitName(strings.TrimSpace(w), pkgName))
			}
			cf.Writers = append(cf.Writers, wd)
		case "guarded":
			// guarded Type.field by lockfield
			f := strings.Fields(rest)
			if len(f) == 3 && f[1] == "by" && strings.Contains(f[0], ".") {
				tf := strings.SplitN(f[0], ".", 2)
				cf.Guarded = append(cf.Guarded, GuardDecl{Pkg: pkgName, Type: tf[0], Field: tf[1], Lock: f[2]})
			} else {
				return nil, fmt.Errorf("%s: guarded needs 'Type.field by lockfield'", where)
			}
		case "const":
			f := strings.Fields(rest)
			if len(f) >= 3 && f[1] == "=" {
				cf.Consts[f[0]] = strings.Join(f[2:], " ")
			}
		default:
			if kw == "ghost" && strings.HasPrefix(rest, "$") && !strings.Contains(rest, ":=") {
				f := strings.Fields(rest)
				if len(f) != 2 {
					return nil, fmt.Errorf("%s: global ghost needs '$name type'", where)
				}
				if cf.GlobalGhosts == nil {
					cf.GlobalGhosts = map[string]string{}
				}
				cf.GlobalGhosts[f[0]] = f[1]
				continue
			}
			if cur == nil {
				return nil, fmt.Errorf("%s: %q outside a unit", where, kw)
			}
			switch kw {
			case "prop":
				cur.Props = append(cur.Props, strings.Fields(strings.ReplaceAll(rest, ",", " "))...)
			case "requires-inv":
				// object invariant: assumed on entry of the unit; NOT asserted at call sites (established by
				// constructors / loaders and re-established by every writer; see the writers declaration)
				c, err := mkClause("requires-inv", rest)
				if err != nil {
					return nil, err
				}
				cur.Requires = append(cur.Requires, c)
			case "requires":
				c, err := mkClause("requires", rest)
				if err != nil {
					return nil, err
				}
				cur.Requires = append(cur.Requires, c)
			case "ensures":
				c, err := mkClause("ensures", rest)
				if err != nil {
					return nil, err
				}
				cur.Ensures = append(cur.Ensures, c)
			case "modifies":
				cur.ModSet = true
				for _, m := range strings.Fields(strings.ReplaceAll(rest, ",", " ")) {
					if m == "none" {
						continue
					}
					cur.Modifies = append(cur.Modifies, m)
				}
			case "preserves":
				cur.Preserves = append(cur.Preserves, strings.Fields(strings.ReplaceAll(rest, ",", " "))...)
			case "frame-assumed":
				// frame-assumed preserves A, B: the frame callers may rely on is taken on trust for this (verified) unit
				f := strings.Fields(strings.ReplaceAll(rest, ",", " "))
				if len(f) < 2 || f[0] != "preserves" {
					return nil, fmt.Errorf("%s: frame-assumed needs 'preserves ...'", where)
				}
				cur.Preserves = append(cur.Preserves, f[1:]...)
				cur.FrameAssumed = true
			case "retains":
				cur.Retains = append(cur.Retains, strings.Fields(strings.ReplaceAll(rest, ",", " "))...)
			case "consumes":
				cur.Consumes = append(cur.Consumes, strings.Fields(strings.ReplaceAll(rest, ",", " "))...)
			case "pure":
				cur.ModSet = true
				cur.Pure = true
			case "inline":
				cur.Inline = true
			case "safe":
				cur.Safe = append(cur.Safe, strings.Fields(strings.ReplaceAll(rest, ",", " "))...)
			case "opt":
				f := strings.SplitN(rest, "=", 2)
				if len(f) == 2 {
					cur.Opts[strings.TrimSpace(f[0])] = strings.TrimSpace(f[1])
				} else {
					cur.Opts[strings.TrimSpace(rest)] = "true"
				}
			case "ghost":
				// ghost name type [= init]   |   inside at-block: ghost name := expr
				if curAt != nil && strings.Contains(rest, ":=") {
					i := strings.Index(rest, ":=")
					c, err := mkClause("ghostset", rest[i+2:])
					if err != nil {
						return nil, err
					}
					c.Ghost = strings.TrimSpace(rest[:i])
					curAt.Clauses = append(curAt.Clauses, c)
					continue
				}
				g := &GhostDecl{}
				decl := rest
				if i := strings.Index(rest, "="); i >= 0 {
					decl = rest[:i]
					e, err := ParseExpr(strings.TrimSpace(rest[i+1:]))
					if err != nil {
						return nil, fmt.Errorf("%s: %v", where, err)
					}
					g.Init = e
				}
				f := strings.Fields(decl)
				if len(f) != 2 {
					return nil, fmt.Errorf("%s: ghost needs 'name type [= init]'", where)
				}
				g.Name, g.Type = f[0], f[1]
				cur.Ghosts = append(cur.Ghosts, g)
			case "loop":
				var n int
				if strings.HasPrefix(rest, "$") {
					i := strings.Index(rest, ":")
					if i < 0 {
						return nil, fmt.Errorf("%s: closure loop needs '$k:n'", where)
					}
					fmt.Sscanf(rest[i+1:], "%d", &n)
					curLoop = &LoopSpec{Ordinal: n}
					if cur.ClosureLoops == nil {
						cur.ClosureLoops = map[string]*LoopSpec{}
					}
					cur.ClosureLoops[fmt.Sprintf("%s:%d", rest[:i], n)] = curLoop
				} else {
					fmt.Sscanf(rest, "%d", &n)
					curLoop = &LoopSpec{Ordinal: n}
					cur.Loops[n] = curLoop
				}
				curAt = nil
			case "invariant":
				if curLoop == nil {
					return nil, fmt.Errorf("%s: invariant outside loop", where)
				}
				c, err := mkClause("invariant", rest)
				if err != nil {
					return nil, err
				}
				curLoop.Invariants = append(curLoop.Invariants, c)
			case "decreases":
				c, err := mkClause("decreases", rest)
				if err != nil {
					return nil, err
				}
				if curLoop != nil {
					curLoop.Decreases = c
				} else {
					cur.Decr = c
				}
			case "at":
				curAt = &AtSpec{Where: strings.TrimSpace(rest)}
				cur.Ats = append(cur.Ats, curAt)
				curLoop = nil
			case "assert", "assume", "use":
				if curAt == nil {
					return nil, fmt.Errorf("%s: %s outside an 'at' block", where, kw)
				}
				c, err := mkClause(kw, rest)
				if err != nil {
					return nil, err
				}
				curAt.Clauses = append(curAt.Clauses, c)
			case "dyncall":
				// dyncall <name> preserves A, B   |   dyncall <name> pure
				f := strings.Fields(strings.ReplaceAll(rest, ",", " "))
				if len(f) < 2 {
					return nil, fmt.Errorf("%s: dyncall needs '<callee> preserves ...|pure'", where)
				}
				if cur.Dyn == nil {
					cur.Dyn = map[string]*UnitSpec{}
				}
				ds := &UnitSpec{Name: cur.Name + ":dyncall:" + f[0], Assumed: true, Pkg: cur.Pkg, Loops: map[int]*LoopSpec{}, Opts: map[string]string{}}
				if f[1] == "pure" {
					ds.Pure = true
					ds.ModSet = true
				} else if f[1] == "preserves" {
					ds.Preserves = f[2:]
				} else if f[1] == "modifies" {
					ds.ModSet = true
					for _, m := range f[2:] {
						if m != "none" {
							ds.Modifies = append(ds.Modifies, m)
						}
					}
				}
				cur.Dyn[f[0]] = ds
			case "calls":
				// calls <value> in {a, b}
				f := strings.SplitN(rest, " in ", 2)
				if len(f) == 2 {
					set := strings.Trim(strings.TrimSpace(f[1]), "{}")
					for _, s := range strings.Split(set, ",") {
						cur.Calls[strings.TrimSpace(f[0])] = append(cur.Calls[strings.TrimSpace(f[0])], strings.TrimSpace(s))
					}
				}
			default:
				return nil, fmt.Errorf("%s: unknown contract keyword %q", where, kw)
			}
		}
	}
	// one contract per callee and file: a second declaration would silently replace the first
	seen := map[string]bool{}
	for _, u := range cf.Units {
		if seen[u.Name] {
			return nil, fmt.Errorf("%s: %s is declared twice (unit / assumed / inline)", path, u.Name)
		}
		seen[u.Name] = true
	}
	return cf, nil
}

func isPropList(s string) bool {
	for _, p := range strings.Split(s, ",") {
		if len(p) < 3 || p[0] != 'C' {
			return false
		}
		for _, c := range p[1:] {
			if c < '0' || c > '9' {
				return false
			}
		}
	}
	return true
}

func splitKw(s string) (string, string) {
	i := strings.IndexAny(s, " \t")
	if i < 0 {
		return s, ""
	}
	return s[:i], strings.TrimSpace(s[i+1:])
}

// parseSpecFun parses "name(a T, b U) R [= body]".
func parseSpecFun(s string) (*SpecFun, error) {
	op := strings.Index(s, "(")
	if op < 0 {
		return nil, fmt.Errorf("spec function needs parameter list")
	}
	name := strings.TrimSpace(s[:op])
	depth := 0
	cl := -1
	for i := op; i < len(s); i++ {
		if s[i] == '(' {
			depth++
		} else if s[i] == ')' {
			depth--
			if depth == 0 {
				cl = i
				break
			}
		}
	}
	if cl < 0 {
		return nil, fmt.Errorf("unbalanced parens")
	}
	sf := &SpecFun{Name: name, Text: s}
	ps := strings.TrimSpace(s[op+1 : cl])
	if ps != "" {
		for _, p := range strings.Split(ps, ",") {
			f := strings.Fields(p)
			if len(f) != 2 {
				return nil, fmt.Errorf("bad parameter %q", p)
			}
			sf.Params = append(sf.Params, Binder{f[0], f[1]})
		}
	}
	rest := strings.TrimSpace(s[cl+1:])
	if i := strings.Index(rest, "="); i >= 0 {
		sf.Ret = strings.TrimSpace(rest[:i])
		e, err := ParseExpr(strings.TrimSpace(rest[i+1:]))
		if err != nil {
			return nil, err
		}
		sf.Body = e
	} else {
		sf.Ret = rest
	}
	if sf.Ret == "" {
		return nil, fmt.Errorf("spec function needs a result type")
	}
	return sf, nil
}
