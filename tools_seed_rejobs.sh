#!/bin/bash
# usage: tools_seed_rejobs.sh <seed-id>  -- re-runs only internal/jobs (flaky: fixed port 7777) for a seed whose full-suite
# run failed in that package alone; up to 3 attempts; updates meta.json
id="$1"; d=/verif/seeded/$id
export GOFLAGS=-mod=mod GOPROXY=off GOSUMDB=off GOTOOLCHAIN=local
wt=/var/tmp/seedwt-re-$id
git -C /repo worktree add -q --detach "$wt" HEAD || exit 2
( cd "$wt" && git apply "$d/patch.diff" ) || { git -C /repo worktree remove --force "$wt"; exit 2; }
ok=1
for n in 1 2 3; do
  ( cd "$wt" && go test -vet=off -count=1 -timeout 10m ./internal/jobs/ > "$d/suite_jobs_rerun.log" 2>&1 ) && { ok=0; break; }
done
git -C /repo worktree remove --force "$wt"
python3 - "$id" $ok <<'PY'
import json,sys
id,ok=sys.argv[1:3]
p='/verif/seeded/%s/meta.json'%id
m=json.load(open(p))
if ok=="0":
    m['confirmed']['full_suite_passes_with_patch']=True
    m['what_i_ran'].append("internal/jobs alone re-run (fixed-port flakiness under concurrent suites): passed; all other packages passed in the full run")
json.dump(m,open(p,'w'),indent=1)
print(id, m['confirmed'])
PY
