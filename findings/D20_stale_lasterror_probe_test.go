package jobs

import (
	"context"
	"errors"
	"os"
	"testing"

	"github.com/DataDog/datadog-go/v5/statsd"
	"go.uber.org/zap"

	"github.com/mimiro-io/datahub/internal/conf"
	"github.com/mimiro-io/datahub/internal/server"
)

type probeSink struct{ reject bool }

func (p *probeSink) GetConfig() map[string]interface{} { return map[string]interface{}{"Type": "probe"} }
func (p *probeSink) processEntities(runner *Runner, entities []*server.Entity) error {
	if p.reject {
		return errors.New("rejected by probe sink")
	}
	return nil
}
func (p *probeSink) startFullSync(runner *Runner) error                    { return nil }
func (p *probeSink) endFullSync(ctx context.Context, runner *Runner) error { return nil }

func TestProbeStaleLastError(t *testing.T) {
	dir, _ := os.MkdirTemp("", "probe")
	defer os.RemoveAll(dir)
	e := &conf.Config{Logger: zap.NewNop().Sugar(), StoreLocation: dir}
	store := server.NewStore(e, &statsd.NoOpClient{})
	defer store.Close()
	runner := &Runner{logger: zap.NewNop().Sugar(), store: store, statsdClient: &statsd.NoOpClient{}}

	inner := &probeSink{reject: true}
	pipe := &IncrementalPipeline{PipelineSpec{sink: inner, batchSize: 10}}
	logH := &ErrorHandler{Type: "log", failingEntityHandler: &LogFailingEntityHandler{}}
	rerun := &ErrorHandler{Type: "rerun", MaxRetries: 3, RetryDelay: int64(3600e9)}
	j := &job{id: "job-1", title: "probe", pipeline: pipe, runner: runner, errorHandlers: []*ErrorHandler{logH, rerun}}

	// run 1: one entity, rejected by the sink, handled by the log handler
	j.instrumentErrorHandling()
	ws := pipe.spec().sink.(*wrappedSink)
	ent := server.NewEntity("ns0:a", 1)
	if err := ws.processEntities(runner, []*server.Entity{ent}); err != nil {
		t.Fatalf("run 1: wrapper returned %v", err)
	}
	var err1 error
	j.handleJobError(&err1)
	t.Logf("after run 1: lastError=%v, retries left=%d (one consumed: expected)", ws.lastError, rerun.MaxRetries)

	// run 2: the sink is healthy again, and there is nothing to process (no batch reaches the sink)
	inner.reject = false
	j.instrumentErrorHandling()
	t.Logf("start of run 2 (after instrumentErrorHandling): lastError=%v", ws.lastError)
	var err2 error // the pipeline returned nil: a successful run
	before := rerun.MaxRetries
	j.handleJobError(&err2)
	t.Logf("after run 2: error seen by handleJobError=%v, retries left=%d (was %d)", err2, rerun.MaxRetries, before)
	if err2 != nil || rerun.MaxRetries != before {
		t.Errorf("DEFECT: a run that succeeded without processing anything is recorded with the previous run's error and schedules a re-run")
	}
}
