package vc

import (
	"encoding/json"
	"fmt"
	"go/types"
	"os"
	"path/filepath"
	"sort"
	"strings"
	"sync"
	"time"

	"golang.org/x/tools/go/packages"
	"golang.org/x/tools/go/ssa"
	"golang.org/x/tools/go/ssa/ssautil"
)

// Load loads the given package patterns of the repository with -tags=verif and builds SSA for them.
func Load(repo string, patterns []string, preludeDir string) (*Engine, error) {
	cfg := &packages.Config{
		Mode:       packages.NeedName | packages.NeedFiles | packages.NeedCompiledGoFiles | packages.NeedImports | packages.NeedDeps | packages.NeedTypes | packages.NeedSyntax | packages.NeedTypesInfo | packages.NeedTypesSizes | packages.NeedModule,
		Dir:        repo,
		BuildFlags: []string{"-tags=verif"},
		Env:        append(os.Environ(), "GOFLAGS=-mod=mod", "GOPROXY=off", "GOSUMDB=off", "GOTOOLCHAIN=local"),
	}
	pkgs, err := packages.Load(cfg, patterns...)
	if err != nil {
		return nil, err
	}
	var errs []string
	packages.Visit(pkgs, nil, func(p *packages.Package) {
		for _, e := range p.Errors {
			errs = append(errs, e.Error())
		}
	})
	if len(errs) > 0 {
		return nil, fmt.Errorf("package load errors: %s", strings.Join(errs[:min(len(errs), 5)], "; "))
	}
	prog, spkgs := ssautil.Packages(pkgs, ssa.GlobalDebug)
	for _, p := range pkgs {
		if p.Types != nil && p.TypesInfo != nil {
			typesInfos[p.Types] = p.TypesInfo
		}
	}
	eng := &Engine{Prog: prog, Pkgs: map[string]*ssa.Package{}, Contracts: map[string]*UnitSpec{}, SpecFuns: map[string]*SpecFun{}, Lemmas: map[string]*SpecFun{}, Consts: map[string]string{}, Funcs: map[string]*ssa.Function{}, GlobalGhosts: map[string]string{"$held": "intset"}}
	if len(pkgs) > 0 {
		eng.Fset = pkgs[0].Fset
	}
	// the functions of the committed baseline (a function that is not listed is new: see Frame.spliced)
	if preludeDir != "" {
		if b, err := os.ReadFile(filepath.Join(filepath.Dir(preludeDir), "functions_baseline.json")); err == nil {
			var names []string
			if json.Unmarshal(b, &names) == nil {
				eng.FuncBaseline = map[string]bool{}
				for _, n := range names {
					eng.FuncBaseline[n] = true
				}
			}
		}
	}
	// prelude contract files (assumed contracts of dependencies, shared spec functions)
	if preludeDir != "" {
		files, _ := filepath.Glob(filepath.Join(preludeDir, "*.ct"))
		sort.Strings(files)
		for _, pf := range files {
			src, err := os.ReadFile(pf)
			if err != nil {
				return nil, err
			}
			cf, err := ParseContracts(pf, "", string(src))
			if err != nil {
				return nil, err
			}
			for _, u := range cf.Units {
				u.Assumed = true
			}
			eng.addContracts(cf)
		}
		smts, _ := filepath.Glob(filepath.Join(preludeDir, "*.smt2"))
		sort.Strings(smts)
		for _, sf := range smts {
			src, err := os.ReadFile(sf)
			if err != nil {
				return nil, err
			}
			eng.Preludes = append(eng.Preludes, string(src))
		}
	}
	for i, sp := range spkgs {
		if sp == nil {
			continue
		}
		sp.Build()
		eng.Pkgs[sp.Pkg.Name()] = sp
		eng.indexPackage(sp)
		// contract files of this package
		for _, gf := range pkgs[i].CompiledGoFiles {
			if filepath.Base(gf) == "verif_contracts.go" {
				src, err := os.ReadFile(gf)
				if err != nil {
					return nil, err
				}
				cf, err := ParseContracts(gf, sp.Pkg.Name(), string(src))
				if err != nil {
					return nil, err
				}
				eng.addContracts(cf)
			}
		}
	}
	// contract files of the repository's other packages (dependencies of the requested ones): their contracts are
	// available at call sites; their units are verified only when their package is requested too
	initial := map[string]bool{}
	for _, p := range pkgs {
		initial[p.PkgPath] = true
	}
	var depErr error
	packages.Visit(pkgs, nil, func(p *packages.Package) {
		if initial[p.PkgPath] || depErr != nil {
			return
		}
		for _, gf := range p.CompiledGoFiles {
			if filepath.Base(gf) == "verif_contracts.go" && strings.HasPrefix(gf, repo) {
				src, err := os.ReadFile(gf)
				if err != nil {
					depErr = err
					return
				}
				cf, err := ParseContracts(gf, p.Name, string(src))
				if err != nil {
					depErr = err
					return
				}
				var keep []*UnitSpec
				for _, u := range cf.Units {
					u.External = true
					// a contract stated by a requested package for the same callee takes precedence
					if _, exists := eng.Contracts[qualifyUnitName(u.Name, cf.Pkg)]; !exists {
						keep = append(keep, u)
					}
				}
				cf.Units = keep
				eng.addContracts(cf)
			}
		}
	})
	if depErr != nil {
		return nil, depErr
	}
	return eng, nil
}

func (eng *Engine) addContracts(cf *ContractFile) {
	for _, u := range cf.Units {
		u.Name = qualifyUnitName(u.Name, cf.Pkg)
		// an assumed contract that a package states about a callee of ANOTHER package is local to the units of the
		// stating package: it must not change how other packages (or the prelude) see that callee
		if u.Assumed && cf.Pkg != "" && !strings.Contains(u.Name, cf.Pkg+".") {
			if eng.Local == nil {
				eng.Local = map[string]map[string]*UnitSpec{}
			}
			if eng.Local[cf.Pkg] == nil {
				eng.Local[cf.Pkg] = map[string]*UnitSpec{}
			}
			eng.Local[cf.Pkg][u.Name] = u
			continue
		}
		if old, ok := eng.Contracts[u.Name]; ok && !old.Assumed && u.Assumed {
			continue // a verified contract wins over an assumed one
		}
		eng.Contracts[u.Name] = u
	}
	for _, s := range cf.Specs {
		eng.SpecFuns[s.Name] = s
	}
	for _, l := range cf.Lemmas {
		eng.Lemmas[l.Name] = l
	}
	eng.Axioms = append(eng.Axioms, cf.Axioms...)
	for k, v := range cf.Consts {
		eng.Consts[k] = v
	}
	for k, v := range cf.GlobalGhosts {
		eng.GlobalGhosts[k] = v
	}
	eng.Guarded = append(eng.Guarded, cf.Guarded...)
	eng.Writers = append(eng.Writers, cf.Writers...)
	for k, v := range cf.GlobalFacts {
		if eng.GlobalFacts == nil {
			eng.GlobalFacts = map[string]Expr{}
		}
		eng.GlobalFacts[k] = v
	}
}

func (eng *Engine) indexFn(fn *ssa.Function) {
	if fn == nil {
		return
	}
	eng.Funcs[canonFn(fn)] = fn
	for _, a := range fn.AnonFuncs {
		eng.indexFn(a)
	}
}

func (eng *Engine) indexPackage(sp *ssa.Package) {
	for _, m := range sp.Members {
		switch m := m.(type) {
		case *ssa.Function:
			eng.indexFn(m)
		case *ssa.Type:
			for _, t := range []types.Type{m.Type(), types.NewPointer(m.Type())} {
				ms := eng.Prog.MethodSets.MethodSet(t)
				for i := 0; i < ms.Len(); i++ {
					fn := eng.Prog.MethodValue(ms.At(i))
					if fn != nil && fn.Synthetic == "" {
						eng.indexFn(fn)
					}
				}
			}
		}
	}
}

// UnitReport is the outcome of verifying one unit.
type UnitReport struct {
	Unit       string
	Obls       []*Obligation
	Errors     []string
	Abstracted []string
	Assumed    []string
	Lemmas     []string
	Blocks     int
	Instrs     int
	GenMs      int64
}

// GenerateUnit builds the obligations of one unit (no solving).
func (eng *Engine) GenerateUnit(spec *UnitSpec) *UnitReport {
	t0 := time.Now()
	rep := &UnitReport{Unit: spec.Name}
	fn := eng.Funcs[spec.Name]
	if fn == nil {
		rep.Errors = append(rep.Errors, fmt.Sprintf("unit %s: function not found in the current tree (renamed or removed)", spec.Name))
		return rep
	}
	u := &Unit{eng: eng, fn: fn, spec: spec, name: spec.Name, defs: NewDefs(), classSort: map[string]Sort{}, gens: map[string]Term{}, AssumedUse: map[string]bool{}, safe: map[string]bool{}, oblNames: map[string]int{}, usedSpecFuns: map[string]bool{}, LemmasUsed: map[string]bool{}}
	for _, s := range spec.Safe {
		u.safe[s] = true
	}
	for _, b := range fn.Blocks {
		rep.Blocks++
		rep.Instrs += len(b.Instrs)
	}
	func() {
		defer func() {
			if r := recover(); r != nil {
				if se, ok := r.(specErr); ok {
					u.errorf("%s", se.msg)
					return
				}
				panic(r)
			}
		}()
		u.verify()
	}()
	rep.Obls = u.obls
	rep.Errors = u.errors
	rep.Abstracted = u.Abstracted
	rep.Assumed = sortedKeys(u.AssumedUse)
	rep.Lemmas = sortedKeys(u.LemmasUsed)
	for _, o := range rep.Obls {
		o.Query = u.buildQuery(o)
	}
	rep.GenMs = time.Since(t0).Milliseconds()
	return rep
}

func (u *Unit) verify() {
	fn := u.fn
	spec := u.spec
	st := newState()
	u.allocBase = u.defs.Fresh("ALLOC_BASE", SInt)
	u.assume(st, App(">", SBool, u.allocBase, IntLit(0)))
	u.prescanClasses(fn, map[*ssa.Function]bool{})
	f := u.newFrame(fn, "", true)
	var pfacts []Term
	for _, p := range fn.Params {
		v := u.defs.Fresh("p_"+p.Name(), sortOf(p.Type()))
		pfacts = append(pfacts, typeFacts(v, p.Type()))
		switch p.Type().Underlying().(type) {
		case *types.Pointer, *types.Map, *types.Chan:
			pfacts = append(pfacts, App("<", SBool, v, u.allocBase))
		case *types.Slice:
			pfacts = append(pfacts, App("<", SBool, App("s_arr", SInt, v), u.allocBase))
		}
		f.vals[p] = Val{T: v, Ty: p.Type()}
	}
	for i, fv := range fn.FreeVars {
		// captured variable of an enclosing function: a cell at a distinct address
		addr := u.defs.Fresh("fv_"+fv.Name(), SInt)
		pfacts = append(pfacts, App(">", SBool, addr, IntLit(0)), App("<", SBool, addr, u.allocBase))
		for j := 0; j < i; j++ {
			pfacts = append(pfacts, Not(Eq(addr, f.vals[fn.FreeVars[j]].T)))
		}
		f.vals[fv] = Val{T: addr, Ty: fv.Type()}
	}
	u.assume(st, And(pfacts...))
	u.entry = st.clone()
	// ghosts
	env := f.pointEnv(st, fn.Blocks[0], -1, nil)
	for _, g := range spec.Ghosts {
		srt, gty := env.resolveType(g.Type)
		if u.ghostTy == nil {
			u.ghostTy = map[string]types.Type{}
		}
		u.ghostTy[g.Name] = gty
		if g.Init != nil {
			tv, ok := env.Term(g.Init, spec.File)
			if ok {
				if tv.T.Sort == "Nil" {
					tv.T = nilOf(srt)
				}
				st.ghost[g.Name] = u.defs.Define("g_"+g.Name, tv.T)
				continue
			}
		}
		st.ghost[g.Name] = u.defs.Fresh("g_"+g.Name, srt)
	}
	var reqs []Term
	for _, r := range spec.Requires {
		t, ok := env.Bool(r.E, r.Line)
		if ok {
			reqs = append(reqs, t)
		}
	}
	u.assume(st, And(reqs...))
	u.entry = st.clone()
	if spec.Decr != nil {
		tv, ok := env.Term(spec.Decr.E, spec.Decr.Line)
		if ok {
			u.entryMeasure = u.defs.Define("entry_measure", tv.T)
		}
	}
	// vacuity probe: the entry condition must be satisfiable
	vo := u.addObl(st, "vacuity", "requires", False, nil)
	vo.ExpectFail = true
	f.atPoint("entry", st, fn.Blocks[0], 0)

	u.topFrame = f
	rst, _ := f.run(st)
	if rst.dead {
		u.abstractf("%s: no return reachable", u.name)
	}
	for _, at := range spec.Ats {
		if !at.hit {
			u.errorf("%s: anchor %q was never reached (no such program point)", spec.Name, at.Where)
		}
	}
	// frames stated as "preserves": the goals collected at the returns, one obligation per class
	for _, c := range sortedKeys(u.frameAcc) {
		top := newState()
		u.addObl(top, "frame", "preserves:"+c, And(u.frameAcc[c]...), nil).Text = "pre-existing objects of class " + c + " are unchanged at every return"
	}
}

// checkReturn emits the postcondition and frame obligations for one return site of the unit.
func (u *Unit) checkReturn(f *Frame, rst *State, rets []Val) {
	fn := u.fn
	spec := u.spec
	// postconditions at the merged return
	extra := map[string]TV{}
	res := fn.Signature.Results()
	for i := 0; i < res.Len() && i < len(rets); i++ {
		tv := TV{T: rets[i].T, Ty: res.At(i).Type()}
		extra[fmt.Sprintf("ret%d", i)] = tv
		if n := res.At(i).Name(); n != "" {
			extra[n] = tv
		}
		if res.Len() == 1 {
			extra["result"] = tv
		}
	}
	penv := &Env{u: u, st: rst, old: u.entry, bound: map[string]boundVar{}, qctr: &u.qctr, fn: fn}
	if fn.Pkg != nil {
		penv.pkg = fn.Pkg.Pkg
	} else if rootFn(fn).Pkg != nil {
		penv.pkg = rootFn(fn).Pkg.Pkg
	}
	penv.lookup = func(penv *Env, name string) (TV, bool) {
		if strings.HasPrefix(name, "var_") && len(name) > 4 {
			name = name[4:] // the program variable of that name, not the contract word
		} else if tv, ok := extra[name]; ok {
			return tv, true
		}
		nm := name
		if strings.HasSuffix(nm, "0") && len(nm) > 1 {
			nm = nm[:len(nm)-1]
		}
		for _, p := range fn.Params {
			if p.Name() == name || p.Name() == nm {
				return TV{T: f.vals[p].T, Ty: p.Type()}, true
			}
		}
		for _, fv := range fn.FreeVars {
			if fv.Name() == name {
				pt := fv.Type().Underlying().(*types.Pointer)
				lv := f.load(f.vals[fv], pt.Elem(), penv.st)
				return TV{T: lv.T, Ty: pt.Elem()}, true
			}
		}
		if fn.Pkg != nil {
			if g, ok := fn.Pkg.Members[name].(*ssa.Global); ok {
				gv := f.val(g, penv.st)
				lv := u.loadLV(gv.LV, gv.LV.Ty, penv.st)
				return TV{T: lv.T, Ty: gv.LV.Ty}, true
			}
		}
		return TV{}, false
	}
	var rinfo *ReplayInfo
	if spec.Opts["replay"] == "true" {
		rinfo = u.replayInfo(f, rets)
	}
	for i, en := range spec.Ensures {
		t, ok := penv.Bool(en.E, en.Line)
		if !ok {
			continue
		}
		lab := en.Label
		if lab == "" {
			lab = fmt.Sprintf("%d", i+1)
		}
		o := u.addObl(rst, "post", lab, t, en)
		if rinfo != nil {
			o.Replay = rinfo
			for _, v := range rinfo.Inputs {
				o.Models = append(o.Models, v.Term)
			}
			for _, v := range rinfo.Results {
				o.Models = append(o.Models, v.Term)
			}
		}
	}
	// frame: a verified unit with a modifies clause must leave every other known class untouched
	if spec.ModSet && !spec.Assumed && !spec.FrameAssumed {
		allowed := map[string]bool{}
		for _, it := range spec.Modifies {
			for _, c := range u.resolveModClasses(it, spec.Pkg) {
				allowed[c] = true
			}
		}
		allowedMs := itemsMatchers(spec.Modifies, spec.Pkg)
		_ = allowed
		// callee effects: every havoc event on the way must be covered by the unit's own modifies clause
		seenEv := map[int]bool{}
		var walk func(g int)
		walk = func(g int) {
			for g != 0 && !seenEv[g] {
				seenEv[g] = true
				e := u.events[g]
				if e.merge {
					for _, p := range e.preds {
						walk(p)
					}
					return
				}
				if e.all {
					u.addObl(rst, "frame", "heap-havoced", False, nil).Text = "a call without a modifies clause forgot the heap"
					return
				}
				for _, pm := range e.pats {
					covered := false
					for _, am := range allowedMs {
						if pm.exact != "" && am.match(pm.exact) {
							covered = true
						}
						if pm.prefix != "" && am.prefix != "" && strings.HasPrefix(pm.prefix, am.prefix) {
							covered = true
						}
					}
					if covered || strings.HasPrefix(pm.exact, "MapLen.") {
						continue
					}
					if srt, known := u.classSort[pm.exact]; known && pm.exact != "" {
						cur := u.heapGet(rst, pm.exact, srt)
						init := u.genConst(0, pm.exact, srt)
						if cur.S != init.S {
							u.addObl(rst, "frame", pm.exact, u.frameGoal(pm.exact, init, cur), nil)
						}
					} else if pm.prefix != "" {
						u.addObl(rst, "frame", "callee-modifies:"+pm.prefix+"*", False, nil)
					}
				}
				g = e.prev
			}
		}
		walk(rst.gen)
		{
			for _, c := range sortedKeys(rst.heap) {
				if allowed[c] || matchAny(allowedMs, c) || strings.HasPrefix(c, "MapLen.") {
					continue
				}
				init := u.genConst(0, c, u.classSort[c])
				if rst.heap[c].S == init.S {
					continue
				}
				// objects allocated by this call are not part of the caller-visible frame
				goal := u.frameGoal(c, init, rst.heap[c])
				u.addObl(rst, "frame", c, goal, nil)
			}
		}
	}
	// frame stated as "preserves": a verified unit must leave every pre-existing object of the listed classes untouched
	// (unless the frame is explicitly taken on trust with frame-assumed, which is reported as an assumption)
	if len(spec.Preserves) > 0 && !spec.Assumed && !spec.FrameAssumed && !spec.ModSet {
		pms := itemsMatchers(spec.Preserves, spec.Pkg)
		overlaps := func(a, b matcher) bool {
			switch {
			case a.exact != "" && b.exact != "":
				return a.exact == b.exact
			case a.exact != "":
				return strings.HasPrefix(a.exact, b.prefix)
			case b.exact != "":
				return strings.HasPrefix(b.exact, a.prefix)
			}
			return strings.HasPrefix(a.prefix, b.prefix) || strings.HasPrefix(b.prefix, a.prefix)
		}
		covers := func(keep []matcher, pm matcher) bool {
			for _, k := range keep {
				if k.exact != "" && pm.exact == k.exact {
					return true
				}
				if k.prefix != "" && (strings.HasPrefix(pm.exact, k.prefix) && pm.exact != "" || pm.prefix != "" && strings.HasPrefix(pm.prefix, k.prefix)) {
					return true
				}
			}
			return false
		}
		// 1. every known class of the preserved set: unchanged on pre-existing objects
		for _, c := range sortedKeys(u.classSort) {
			if !matchAny(pms, c) || strings.HasPrefix(c, "MapLen.") {
				continue
			}
			srt := u.classSort[c]
			cur := u.heapGet(rst, c, srt)
			init := u.genConst(0, c, srt)
			if cur.S != init.S {
				// one obligation per class for the whole unit (not one per return): collected here, emitted after the run
				if u.frameAcc == nil {
					u.frameAcc = map[string][]Term{}
				}
				u.frameAcc[c] = append(u.frameAcc[c], Implies(rst.pc, u.frameGoal(c, init, cur)))
			}
		}
		// 2. classes this unit never touches itself: no callee on the way may forget them
		seenEv := map[int]bool{}
		reported := map[string]bool{}
		var walk func(g int)
		walk = func(g int) {
			for g != 0 && !seenEv[g] {
				seenEv[g] = true
				e := u.events[g]
				if e.merge {
					for _, p := range e.preds {
						walk(p)
					}
					return
				}
				for _, pm := range pms {
					name := pm.exact + pm.prefix
					if pm.exact != "" {
						if _, known := u.classSort[pm.exact]; known {
							continue // decided by 1.
						}
					}
					bad := false
					if e.all {
						bad = !covers(e.pats, pm)
					} else {
						for _, hp := range e.pats {
							if hp.exact != "" && e.localOnly[hp.exact] {
								continue // written only in variables of this invocation: no pre-existing object is touched
							}
							if overlaps(hp, pm) {
								// a wildcard in the unit's own list is decided class by class in 1. when every class it
								// forgets is known; an unknown class under a forgotten prefix is not
								if pm.prefix != "" && hp.exact != "" {
									if _, known := u.classSort[hp.exact]; known {
										continue
									}
								}
								bad = true
							}
						}
					}
					if bad && !reported[name] {
						reported[name] = true
						u.addObl(rst, "frame", "preserves:callee-forgets:"+name, False, nil).Text = "a callee on the way (" + e.why + ") does not promise to preserve " + name
						if os.Getenv("VERIF_DEBUG") != "" {
							fmt.Fprintf(os.Stderr, "frame-debug %s: %s forgets %s (event all=%v pats=%v)\n", u.name, e.why, name, e.all, e.pats)
						}
					}
				}
				g = e.prev
			}
		}
		walk(rst.gen)
	}
}

// frameGoal: for all pre-existing objects the class is unchanged.
func (u *Unit) frameGoal(class string, before, after Term) Term {
	if !strings.HasPrefix(string(before.Sort), "(Array Int") {
		return Eq(before, after)
	}
	u.qctr++
	q := fmt.Sprintf("q%d_o", u.qctr)
	return Term{fmt.Sprintf("(forall ((%s Int)) (=> (< %s %s) (= (select %s %s) (select %s %s))))", q, q, u.allocBase.S, before.S, q, after.S, q), SBool}
}

// buildQuery assembles the SMT text of one obligation.
func (u *Unit) buildQuery(o *Obligation) string {
	var b strings.Builder
	b.WriteString(smtHeader)
	for _, p := range u.eng.Preludes {
		b.WriteString(p)
		b.WriteString("\n")
	}
	// axioms: include those whose spec functions occur (fixpoint)
	roots := []string{o.PC.S, o.Goal.S}
	roots = append(roots, o.Models...)
	body := u.defs.Slice(roots...)
	var axTexts []string
	included := map[int]bool{}
	for changed := true; changed; {
		changed = false
		for i, ax := range u.eng.Axioms {
			if included[i] {
				continue
			}
			txt, fns, ok := u.axiomText(ax)
			if !ok {
				continue
			}
			hit := false
			for _, fnm := range fns {
				if strings.Contains(body, "sf_"+fnm+" ") || strings.Contains(body, "sf_"+fnm+")") || strings.Contains(o.Goal.S+o.PC.S, "sf_"+fnm) {
					hit = true
				}
			}
			if hit {
				included[i] = true
				axTexts = append(axTexts, txt)
				roots = append(roots, txt)
				body = u.defs.Slice(roots...)
				changed = true
			}
		}
	}
	for _, ha := range headerAxioms {
		if strings.Contains(body, ha.sym) || strings.Contains(o.Goal.S, ha.sym) || strings.Contains(o.PC.S, ha.sym) {
			b.WriteString(ha.text)
		}
	}
	b.WriteString(body)
	for _, a := range axTexts {
		b.WriteString("(assert " + a + ")\n")
	}
	fmt.Fprintf(&b, "(assert %s)\n", o.PC.S)
	fmt.Fprintf(&b, "(assert (not %s))\n", o.Goal.S)
	return b.String()
}

var axMu sync.Mutex

// axiomText translates an axiom in a closed environment; returns the text and the spec functions it mentions.
func (u *Unit) axiomText(ax *Axiom) (string, []string, bool) {
	if u.axCache == nil {
		u.axCache = map[*Axiom]axEntry{}
	}
	if e, ok := u.axCache[ax]; ok {
		return e.text, e.fns, e.ok
	}
	env := &Env{u: u, st: newState(), bound: map[string]boundVar{}, qctr: &u.qctr}
	if u.fn != nil {
		if u.fn.Pkg != nil {
			env.pkg = u.fn.Pkg.Pkg
		} else if rootFn(u.fn).Pkg != nil {
			env.pkg = rootFn(u.fn).Pkg.Pkg
		}
	}
	before := map[string]bool{}
	for k := range u.usedSpecFuns {
		before[k] = true
	}
	t, ok := env.Bool(ax.E, "axiom "+ax.Name)
	var fns []string
	collectCalls(ax.E, func(n string) {
		if _, is := u.eng.SpecFuns[n]; is {
			fns = append(fns, n)
		}
	})
	e := axEntry{text: t.S, fns: fns, ok: ok}
	u.axCache[ax] = e
	return e.text, e.fns, e.ok
}

type axEntry struct {
	text string
	fns  []string
	ok   bool
}

func collectCalls(e Expr, fn func(string)) {
	switch x := e.(type) {
	case *ECall:
		fn(x.Fn)
		for _, a := range x.Args {
			collectCalls(a, fn)
		}
	case *EUnary:
		collectCalls(x.X, fn)
	case *EBinary:
		collectCalls(x.X, fn)
		collectCalls(x.Y, fn)
	case *EField:
		collectCalls(x.X, fn)
	case *EIndex:
		collectCalls(x.X, fn)
		collectCalls(x.I, fn)
	case *ESlice:
		collectCalls(x.X, fn)
		if x.Lo != nil {
			collectCalls(x.Lo, fn)
		}
		if x.Hi != nil {
			collectCalls(x.Hi, fn)
		}
	case *EQuant:
		collectCalls(x.Body, fn)
	case *EOld:
		collectCalls(x.X, fn)
	case *ECond:
		collectCalls(x.C, fn)
		collectCalls(x.A, fn)
		collectCalls(x.B, fn)
	}
}

// SolveAll discharges obligations in parallel.
func SolveAll(obls []*Obligation, timeoutMs int, need int) {
	var wg sync.WaitGroup
	sem := make(chan struct{}, 8)
	for i, o := range obls {
		wg.Add(1)
		sem <- struct{}{}
		go func(i int, o *Obligation) {
			defer wg.Done()
			defer func() { <-sem }()
			if o.Res.Verdict != "" { // decided syntactically
				return
			}
			id := fmt.Sprintf("q%d_%s", i, sanitize(o.Name))
			tmo := timeoutMs
			nd := need
			if o.ExpectFail || o.KnownFinding { // probes: a quick answer or none
				nd = 1
				if tmo > 2000 {
					tmo = 2000
				}
				if o.Info && tmo > 800 { // reachability probes are informational
					tmo = 800
				}
			}
			r, _ := Solve(o.Query, id, tmo, o.Models, nd)
			if !o.ExpectFail && !o.KnownFinding && r.Verdict != "unsat" && r.Verdict != "sat" {
				// unstable quantifier instantiation: one more attempt with another seed and twice the time,
				// so that a slow day of a solver is not reported as a failed proof
				r2, _ := Solve("(set-option :smt.random_seed 11)\n(set-option :sat.random_seed 11)\n"+o.Query, id+"_r", 2*tmo, o.Models, 1)
				if r2.Verdict == "unsat" || r2.Verdict == "sat" {
					r2.Backend += " (retry)"
					r2.Ms += r.Ms
					r = r2
				}
			}
			o.Res = r
		}(i, o)
	}
	wg.Wait()
}

// LemmaObligations builds one obligation per lemma used by the given units: the lemma must follow from the axioms.
func (eng *Engine) LemmaObligations(reports []*UnitReport, prop string) []*Obligation {
	seen := map[string]bool{}
	var out []*Obligation
	// lemmas used by the units, then the composition lemmas declared for this property (lemma [Cxx] ...)
	var names []string
	for _, r := range reports {
		names = append(names, r.Lemmas...)
	}
	for _, ln := range sortedKeys(eng.Lemmas) {
		for _, p := range eng.Lemmas[ln].Props {
			if p == prop {
				names = append(names, ln)
			}
		}
	}
	{
		for _, ln := range names {
			if seen[ln] {
				continue
			}
			seen[ln] = true
			lm := eng.Lemmas[ln]
			if lm == nil {
				continue
			}
			u := &Unit{eng: eng, name: "lemma." + ln, defs: NewDefs(), classSort: map[string]Sort{}, gens: map[string]Term{}, AssumedUse: map[string]bool{}, safe: map[string]bool{}, oblNames: map[string]int{}, usedSpecFuns: map[string]bool{}, LemmasUsed: map[string]bool{}}
			st := newState()
			env := &Env{u: u, st: st, bound: map[string]boundVar{}, qctr: &u.qctr}
			for _, p := range eng.Prog.AllPackages() {
				if strings.HasSuffix(p.Pkg.Path(), "/internal/server") {
					env.pkg = p.Pkg
				}
			}
			ok := true
			func() {
				defer func() {
					if r := recover(); r != nil {
						ok = false
					}
				}()
				for _, p := range lm.Params {
					s, ty := env.resolveType(p.Type)
					env = env.bind(p.Name, boundVar{T: u.defs.Fresh("lp_"+p.Name, s), Ty: ty})
				}
			}()
			if !ok {
				continue
			}
			t, ok := env.Bool(lm.Body, "lemma "+ln)
			if !ok {
				continue
			}
			o := u.addObl(st, "lemma", "follows-from-axioms", t, nil)
			o.Props = []string{prop}
			o.Text = lm.Text
			o.Query = u.buildQuery(o)
			out = append(out, o)
		}
	}
	return out
}

// WriterObligations checks the writers declarations syntactically over every function of the declaring package.
func (eng *Engine) WriterObligations(prop string) []*Obligation {
	var out []*Obligation
	for _, wd := range eng.Writers {
		sp := eng.Pkgs[wd.Pkg]
		if sp == nil {
			continue
		}
		mine := false
		for _, p := range wd.Props {
			if p == prop {
				mine = true
			}
		}
		if !mine {
			continue
		}
		allowed := map[string]bool{}
		for _, a := range wd.Allowed {
			allowed[a] = true
		}
		var offenders []string
		names := sortedKeys(eng.Funcs)
		for _, name := range names {
			fn := eng.Funcs[name]
			if rootFn(fn).Pkg != sp {
				continue
			}
			rootName := canonFn(rootFn(fn))
			if allowed[name] || allowed[rootName] {
				continue
			}
			if w := writesField(fn, wd); w != "" {
				offenders = append(offenders, name+": "+w)
			}
		}
		o := &Obligation{Name: fmt.Sprintf("%s.%s.%s/inv:writers", wd.Pkg, wd.Type, wd.Field), Kind: "inv:writers", Unit: wd.Pkg, Props: []string{prop}, PC: True, Goal: True,
			Text: "only " + strings.Join(wd.Allowed, ", ") + " write " + wd.Type + "." + wd.Field}
		if len(offenders) == 0 {
			o.Res = SolverResult{Verdict: "unsat", Backend: "syntactic-sweep"}
		} else {
			o.Res = SolverResult{Verdict: "sat", Backend: "syntactic-sweep", Output: "writers outside the declared set: " + strings.Join(offenders, "; ")}
		}
		out = append(out, o)
	}
	return out
}

// writesField reports how fn writes the declared field (assignment, or update of the map it holds).
func writesField(fn *ssa.Function, wd WritersDecl) string {
	isField := func(v ssa.Value) bool {
		fa, ok := v.(*ssa.FieldAddr)
		if !ok {
			return false
		}
		pt, ok := fa.X.Type().Underlying().(*types.Pointer)
		if !ok {
			return false
		}
		nm, ok := pt.Elem().(*types.Named)
		if !ok || nm.Obj().Name() != wd.Type || nm.Obj().Pkg() == nil || nm.Obj().Pkg().Name() != wd.Pkg {
			return false
		}
		st := nm.Underlying().(*types.Struct)
		return st.Field(fa.Field).Name() == wd.Field
	}
	fromField := func(v ssa.Value) bool {
		if u, ok := v.(*ssa.UnOp); ok {
			return isField(u.X)
		}
		return false
	}
	for _, b := range fn.Blocks {
		for _, ins := range b.Instrs {
			switch ins := ins.(type) {
			case *ssa.Store:
				if isField(ins.Addr) {
					return "assigns the field"
				}
				if ia, ok := ins.Addr.(*ssa.IndexAddr); ok && fromField(ia.X) {
					return "writes an element of the slice held by the field"
				}
			case *ssa.MapUpdate:
				if fromField(ins.Map) {
					return "updates the map held by the field"
				}
			case *ssa.Call:
				if bi, ok := ins.Call.Value.(*ssa.Builtin); ok && bi.Name() == "delete" && fromField(ins.Call.Args[0]) {
					return "deletes from the map held by the field"
				}
			}
		}
	}
	return ""
}

// RecursionObligations: every function of the given package that lies on a call-graph cycle (static calls, closures
// included) must be a unit under contract with a decreases clause; otherwise the obligation fails.
func (eng *Engine) RecursionObligations(pkg string, prop string, allow []string) []*Obligation {
	sp := eng.Pkgs[pkg]
	if sp == nil {
		return nil
	}
	var fns []*ssa.Function
	idx := map[*ssa.Function]int{}
	for _, name := range sortedKeys(eng.Funcs) {
		fn := eng.Funcs[name]
		if rootFn(fn).Pkg == sp {
			idx[fn] = len(fns)
			fns = append(fns, fn)
		}
	}
	succ := make([][]int, len(fns))
	for i, fn := range fns {
		for _, b := range fn.Blocks {
			for _, ins := range b.Instrs {
				var cc *ssa.CallCommon
				switch c := ins.(type) {
				case *ssa.Call:
					cc = c.Common()
				case *ssa.Defer:
					cc = c.Common()
				case *ssa.Go:
					continue // a new goroutine: not recursion on this stack
				case *ssa.MakeClosure:
					if j, ok := idx[c.Fn.(*ssa.Function)]; ok {
						_ = j // creating a closure is not calling it
					}
					continue
				}
				if cc == nil {
					continue
				}
				if t := cc.StaticCallee(); t != nil {
					if j, ok := idx[t]; ok {
						succ[i] = append(succ[i], j)
					}
				}
			}
		}
	}
	// Tarjan SCC
	index := 0
	var stack []int
	onStack := make([]bool, len(fns))
	ind := make([]int, len(fns))
	low := make([]int, len(fns))
	for i := range ind {
		ind[i] = -1
	}
	var cyc []int
	var strong func(v int)
	strong = func(v int) {
		ind[v], low[v] = index, index
		index++
		stack = append(stack, v)
		onStack[v] = true
		for _, w := range succ[v] {
			if ind[w] < 0 {
				strong(w)
				if low[w] < low[v] {
					low[v] = low[w]
				}
			} else if onStack[w] && ind[w] < low[v] {
				low[v] = ind[w]
			}
		}
		if low[v] == ind[v] {
			var comp []int
			for {
				w := stack[len(stack)-1]
				stack = stack[:len(stack)-1]
				onStack[w] = false
				comp = append(comp, w)
				if w == v {
					break
				}
			}
			self := false
			for _, w := range succ[v] {
				if w == v {
					self = true
				}
			}
			if len(comp) > 1 || self {
				cyc = append(cyc, comp...)
			}
		}
	}
	for v := range fns {
		if ind[v] < 0 {
			strong(v)
		}
	}
	var out []*Obligation
	var missing []string
	for _, v := range cyc {
		name := canonFn(fns[v])
		spec := eng.Contracts[name]
		allowed := false
		for _, a := range allow {
			if a == name {
				allowed = true
			}
		}
		if allowed {
			continue
		}
		if spec == nil || spec.Assumed || spec.Decr == nil {
			missing = append(missing, name)
		}
	}
	sort.Strings(missing)
	o := &Obligation{Name: pkg + "/term:recursion", Kind: "term:recursion", Unit: pkg, Props: []string{prop}, PC: True, Goal: True,
		Text: "every function of package " + pkg + " on a static call-graph cycle is a unit under contract with a decreases clause"}
	if len(missing) == 0 {
		o.Res = SolverResult{Verdict: "unsat", Backend: "syntactic-sweep"}
	} else {
		o.Res = SolverResult{Verdict: "sat", Backend: "syntactic-sweep", Output: "recursive without a proved measure: " + strings.Join(missing, ", ")}
	}
	out = append(out, o)
	return out
}

// Anchors lists the call anchors of a function (for writing contracts).
func (eng *Engine) Anchors(name string) []string {
	fn := eng.Funcs[name]
	if fn == nil {
		return nil
	}
	u := &Unit{eng: eng, fn: fn, name: name}
	f := &Frame{u: u, fn: fn}
	f.loops = findLoops(fn)
	f.numberCalls()
	var out []string
	for _, b := range fn.Blocks {
		if li := f.loops[b]; li != nil {
			out = append(out, fmt.Sprintf("loop %d  (header block %d %s)", li.ord, b.Index, b.Comment))
		}
		for _, ins := range b.Instrs {
			if a, ok := f.callOrd[ins]; ok {
				out = append(out, fmt.Sprintf("%-40s %s", a, shortPos(eng.Fset, ins.Pos())))
			}
		}
	}
	return out
}

// contractFor resolves the contract of a callee for a unit of package pkg: the package's own statement about the
// callee first, then the callee's contract (its own package's file or the prelude).
var handoffMu sync.Mutex

func (eng *Engine) contractFor(name, pkg string) (*UnitSpec, bool) {
	if l, ok := eng.Local[pkg]; ok {
		if s, ok := l[name]; ok {
			// hand-over clauses (retains / consumes) of the shared contract stay in force under a package's own statement
			if g, ok := eng.Contracts[name]; ok && g != s && (len(g.Retains) > 0 || len(g.Consumes) > 0) {
				handoffMu.Lock()
				if len(s.Retains) == 0 {
					s.Retains = g.Retains
				}
				if len(s.Consumes) == 0 {
					s.Consumes = g.Consumes
				}
				handoffMu.Unlock()
			}
			return s, true
		}
	}
	s, ok := eng.Contracts[name]
	return s, ok
}

// replayInfo collects the input and result terms of a first-order unit (basic-typed parameters, pointers to structs with
// basic fields, basic results) so that a model of a refuted post-condition can be run against the real function.
func (u *Unit) replayInfo(f *Frame, rets []Val) *ReplayInfo {
	fn := u.fn
	if fn.Pkg == nil {
		return nil
	}
	ri := &ReplayInfo{Func: fn.Name(), Pkg: fn.Pkg.Pkg.Path(), PkgName: fn.Pkg.Pkg.Name(), Complete: true}
	basicName := func(t types.Type) (string, bool) {
		if b, ok := t.Underlying().(*types.Basic); ok {
			switch {
			case b.Info()&types.IsString != 0, b.Info()&types.IsBoolean != 0, b.Info()&types.IsInteger != 0:
				return types.TypeString(t, func(p *types.Package) string {
					if p == fn.Pkg.Pkg {
						return ""
					}
					return p.Name()
				}), true
			}
		}
		return "", false
	}
	for i, p := range fn.Params {
		isRecv := i == 0 && fn.Signature.Recv() != nil
		v := f.vals[p]
		if bn, ok := basicName(p.Type()); ok && !isRecv {
			ri.Inputs = append(ri.Inputs, ReplayVar{Name: p.Name(), GoType: bn, Term: v.T.S, Sort: string(v.T.Sort)})
			ri.Params = append(ri.Params, ReplayParam{Name: p.Name(), GoType: bn})
			continue
		}
		pt, ok := p.Type().Underlying().(*types.Pointer)
		if !ok {
			return nil
		}
		named, ok := pt.Elem().(*types.Named)
		if !ok {
			return nil
		}
		st, ok := named.Underlying().(*types.Struct)
		if !ok {
			return nil
		}
		rp := ReplayParam{Name: p.Name(), Struct: named.Obj().Name()}
		for k := 0; k < st.NumFields(); k++ {
			fld := st.Field(k)
			bn, ok := basicName(fld.Type())
			if !ok {
				ri.Complete = false
				continue // left at its zero value in the replay
			}
			lv := &LValue{Kind: "field", Class: fieldClass(named, []string{fld.Name()}), Sort: sortOf(fld.Type()), Base: v.T, Owner: named, Path: []string{fld.Name()}, Ty: fld.Type()}
			fv := u.loadLV(lv, fld.Type(), u.entry)
			ri.Inputs = append(ri.Inputs, ReplayVar{Name: p.Name() + "." + fld.Name(), GoType: bn, Term: fv.T.S, Sort: string(fv.T.Sort)})
			rp.Fields = append(rp.Fields, fld.Name())
		}
		if isRecv {
			ri.Recv, ri.RecvPtr, ri.RecvName = named.Obj().Name(), true, p.Name()
		}
		ri.Params = append(ri.Params, rp)
	}
	res := fn.Signature.Results()
	for i := 0; i < res.Len() && i < len(rets); i++ {
		bn, ok := basicName(res.At(i).Type())
		if !ok {
			if types.TypeString(res.At(i).Type(), nil) == "error" {
				// errors are observed as nil / non-nil
				ri.Results = append(ri.Results, ReplayVar{Name: fmt.Sprintf("ret%d", i), GoType: "error", Term: rets[i].T.S, Sort: string(rets[i].T.Sort)})
				continue
			}
			return nil
		}
		ri.Results = append(ri.Results, ReplayVar{Name: fmt.Sprintf("ret%d", i), GoType: bn, Term: rets[i].T.S, Sort: string(rets[i].T.Sort)})
	}
	return ri
}
