#!/bin/bash
# third batch of the must-fail corpus (same conventions as make_mutants.sh)
set -e
wt=/var/tmp/mutgen-$$
git -C /repo worktree add -q --detach "$wt" HEAD
out=/verif/selftest/mutants
mk() { id="$1"; prop="$2"; file="$3"; expr="$4"; expect="$5"
  ( cd "$wt" && sed -i "$expr" "$file" && git diff > "$out/$id.patch" && git checkout -q -- . )
  if [ ! -s "$out/$id.patch" ]; then echo "mutant $id produced no change"; rm -f "$out/$id.patch"; return; fi
  printf '{"id":"%s","property":"%s","expect":"%s"}\n' "$id" "$prop" "$expect" > "$out/$id.json"
}
S=internal/server; J=internal/jobs
mk c01-listing-no-next   C01 $S/dataset.go 's|\t\t\tentityIterator.Next()$|\t\t\t_ = from|' 'later-page-resumes-right-after-the-token-key'
mk c01-listing-count     C01 $S/dataset.go 's|\t\t\tif taken == count {|\t\t\tif taken > count {|' 'page-holds-at-most-count'
mk c01-listing-token     C01 $S/dataset.go 's|\t\t\tlastKeyAsContinuationToken = b64.StdEncoding.EncodeToString(entityIterator.Item().Key())|\t\t\tlastKeyAsContinuationToken = b64.StdEncoding.EncodeToString(entityIterator.Item().Key()[:10])|' 'token-names-the-last-visited-pointer'
mk c03-paging-added      C03 $S/store.go 's|\t\t\t\t\t// a live key above the start key was returned (or already covered) by an earlier page|\t\t\t\t\tif hasReachedStartKey {|; s|^\t\t\t\t\tadded\[predID\]\[relatedID\] = true$|\t\t\t\t\tadded[predID][relatedID] = true }|' 'inv-pres'
mk c03-incoming-flush    C03 $S/store.go 's|\t\t\t\tif currentRID != 0 \&\& !prevDeleted {|\t\t\t\tif currentRID != 0 {|' 'incoming-results-flushed-only-when'
mk c03-limit-not-reduced C03 $S/store.go 's#\t\t\tlimit = int(math.Max(float64(limit-len(relatedEntities.Relations)), 0))#\t\t\tlimit = int(math.Max(float64(limit), 0))#' 'start-point-queried-with-what-the-earlier-ones-left-over'
mk c03-skipped-dropped   C03 $S/store.go 's#\t\t\trelatedFroms = append(relatedFroms, startPoint)#\t\t\t_ = startPoint#' 'every-start-point-not-queried-is-carried-over'
mk c03-limit-off-by-one  C03 $S/store.go 's#\t\tif (limit > 0) || unlimited {#\t\tif (limit >= 0) || unlimited {#' 'start-point-queried-with-what'
W=internal/web
mk c16-route-open        C16 $W/datasethandler.go 's#\te.DELETE("/datasets", handler.deleteAllDatasets, mw.authorizer(log, datahubWrite))#\te.DELETE("/datasets", handler.deleteAllDatasets)#' 'route-carries-the-authorizer@DELETE#2'
mk c16-acl-result-ignored C16 $W/middlewares/authorization.go 's#\t\t\t\t\tif err != nil {$#\t\t\t\t\tif err != nil \&\& core == nil {#' 'request-reaches-the-handler-only-after'
mk c16-acl-wrong-path    C16 $W/middlewares/authorization.go 's#err = doAclCheck(c.Request().Method, c.Request().URL.Path, token, core)#err = doAclCheck(c.Request().Method, c.Path(), token, core)#' 'acl-decision-taken-for-the-requests-own-method-and-path'
mk c11-verify-early-return C11 $J/scheduler.go 's#\t\t\tif trigger.MonitoredDataset == "" {#\t\t\tif trigger.MonitoredDataset != "" { return nil }\n\t\t\tif trigger.MonitoredDataset == "" {#' 'accepted-definition-had-the-error-handlers-of-every-trigger-validated'
mk c11-log-handler-nil    C11 $J/error_handler.go 's#\t\t\t\teh.failingEntityHandler = \&LogFailingEntityHandler{MaxItems: eh.MaxItems, jobId: id, jobTitle: title}#\t\t\t\t_ = id#' 'accepted-log-and-requeue-handlers-have-their-entity-handler-installed'
mk c14-job-stored-late    C14 $J/scheduler.go 's#\terr = s.Store.StoreObject(server.JobConfigIndex, jobConfig.ID, jobConfig) // store it for the future#\terr = s.Store.StoreObject(server.JobConfigIndex, jobConfig.Title, jobConfig) // store it for the future#' 'job-definition-stored-under-its-own-id'
git -C /repo worktree remove --force "$wt"
