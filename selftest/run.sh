#!/bin/bash
# Must-fail self-test: every mutant (selftest/mutants/*.patch) and every seeded change (seeded/*/patch.diff) is applied to a
# scratch worktree of /repo HEAD; the check of the property it breaks must report a VIOLATION. Exit 0 iff all do.
# usage: run.sh [filter-substring]
export GOFLAGS=-mod=mod GOPROXY=off GOSUMDB=off GOTOOLCHAIN=local
wt=/var/tmp/selftest-wt-$$
out=/var/tmp/selftest-out-$$
mkdir -p "$out"
git -C /repo worktree add -q --detach "$wt" HEAD || exit 2
cp /verif/expected_obligations.json "$wt/.verif_expected.json"  # the baseline that belongs to this commit
trap 'git -C /repo worktree remove --force "$wt" >/dev/null 2>&1; rm -rf "$out"' EXIT
fail=0; n=0
only_prop=""
if [ "${1:-}" = "--prop" ]; then only_prop="$2"; shift 2; fi
run_one() { # id prop patch expect
  id="$1"; prop="$2"; patch="$3"; expect="$4"
  ( cd "$wt" && git checkout -q -- . && git apply "$patch" ) || { echo "SELFTEST $id: patch does not apply (stale mutant)"; fail=1; return; }
  if ! ( cd "$wt" && go build ./... >/dev/null 2>&1 ); then echo "SELFTEST $id: mutant does not compile (stale)"; fail=1; return; fi
  res=$(cd /verif && VERIF_OUT="$out" ./bin/vcgen check "$prop" --repo="$wt" 2>&1)
  n=$((n+1))
  if echo "$res" | grep -q "VIOLATION property=$prop"; then
    if [ -n "$expect" ] && ! echo "$res" | grep "failed:" | grep -q -- "$expect"; then
      echo "SELFTEST $id: violation reported but not on the expected obligation ($expect): $(echo "$res" | grep 'failed:' | head -2 | tr '\n' ' ')"
    else
      echo "SELFTEST $id: detected"
    fi
  else
    echo "SELFTEST $id: MISSED ($prop)"; fail=1
  fi
}
for j in /verif/selftest/mutants/*.json; do
  id=$(basename "$j" .json)
  [ -n "$1" ] && [[ "$id" != *"$1"* ]] && continue
  prop=$(python3 -c "import json;print(json.load(open('$j'))['property'])")
  [ -n "$only_prop" ] && [ "$prop" != "$only_prop" ] && continue
  expect=$(python3 -c "import json;print(json.load(open('$j'))['expect'])")
  run_one "$id" "$prop" "/verif/selftest/mutants/$id.patch" "$expect"
done
for d in /verif/seeded/*/; do
  id=$(basename "$d")
  [ -n "$1" ] && [[ "$id" != *"$1"* ]] && continue
  prop=$(python3 -c "import json;print(json.load(open('$d/meta.json'))['breaks_property'])")
  [ -n "$only_prop" ] && [ "$prop" != "$only_prop" ] && continue
  run_one "seeded-$id" "$prop" "$d/patch.diff" ""
done
echo "SELFTEST ran $n mutants, failures: $fail"
exit $fail
