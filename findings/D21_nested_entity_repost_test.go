package server

import (
	"os"
	"strings"
	"testing"

	"github.com/DataDog/datadog-go/v5/statsd"
	"go.uber.org/zap"

	"github.com/mimiro-io/datahub/internal/conf"
)

// D21 probe: an entity whose property holds a nested entity is posted twice with identical content; the change feed
// must hold one entry ("a write identical to the entity's current version adds nothing").
func TestZZD21NestedEntityRepost(t *testing.T) {
	dir, _ := os.MkdirTemp("", "d21")
	defer os.RemoveAll(dir)
	e := &conf.Config{Logger: zap.NewNop().Sugar(), StoreLocation: dir}
	s := NewStore(e, &statsd.NoOpClient{})
	defer s.Close()
	dsm := NewDsManager(e, s, NoOpBus())
	ds, err := dsm.CreateDataset("people", nil)
	if err != nil {
		t.Fatal(err)
	}
	payload := `[{"id":"@context","namespaces":{"ex":"http://example.com/"}},
	 {"id":"ex:bob","props":{"ex:name":"Bob","ex:address":{"id":"ex:addr1","props":{"ex:street":"Main"},"refs":{}}},"refs":{}}]`
	for i := 0; i < 3; i++ {
		esp := NewEntityStreamParser(s)
		var batch []*Entity
		if err := esp.ParseStream(strings.NewReader(payload), func(en *Entity) error { batch = append(batch, en); return nil }); err != nil {
			t.Fatal(err)
		}
		if err := ds.StoreEntities(batch); err != nil {
			t.Fatal(err)
		}
	}
	ch, err := ds.GetChanges(0, 100, false)
	if err != nil {
		t.Fatal(err)
	}
	if len(ch.Entities) != 1 {
		t.Fatalf("identical content posted 3 times: change feed holds %d entries, want 1", len(ch.Entities))
	}
}
