package server

import (
	"os"
	"testing"

	"github.com/DataDog/datadog-go/v5/statsd"
	"go.uber.org/zap"

	"github.com/mimiro-io/datahub/internal/conf"
)

// Known finding D3 (property C03): the incoming (inverse) relationship scan keeps ONE deleted flag per referencing
// entity (that of the last key scanned) but one candidate result per predicate. After e0 drops its p-reference to e2
// while keeping (or adding) a q-reference to e2, the incoming query on e2 still returns (e0, p).
func TestFindingD3(t *testing.T) {
	dir, _ := os.MkdirTemp("", "d3")
	defer os.RemoveAll(dir)
	e := &conf.Config{Logger: zap.NewNop().Sugar(), StoreLocation: dir}
	s := NewStore(e, &statsd.NoOpClient{})
	defer s.Close()
	dm := NewDsManager(e, s, NoOpBus())
	ds, _ := dm.CreateDataset("d1", nil)
	mk := func(id string, refs map[string]interface{}) *Entity {
		en := NewEntity(id, 0)
		for k, v := range refs {
			en.References[k] = v
		}
		return en
	}
	if err := ds.StoreEntities([]*Entity{mk("ns0:e2", nil)}); err != nil {
		t.Fatal(err)
	}
	if err := ds.StoreEntities([]*Entity{mk("ns0:e0", map[string]interface{}{"ns0:p": "ns0:e2"})}); err != nil {
		t.Fatal(err)
	}
	if err := ds.StoreEntities([]*Entity{mk("ns0:e0", map[string]interface{}{"ns0:q": "ns0:e2"})}); err != nil {
		t.Fatal(err)
	}
	from, err := s.ToRelatedFrom([]string{"ns0:e2"}, "*", true, nil, 1<<62)
	if err != nil {
		t.Fatal(err)
	}
	res, err := s.GetManyRelatedEntitiesAtTime(from, 0, false)
	if err != nil {
		t.Fatal(err)
	}
	var got []string
	for _, r := range res.Relations {
		got = append(got, r.PredicateURI+"<-"+r.RelatedEntity.ID)
	}
	t.Logf("incoming relations of e2: %v", got)
	for _, r := range res.Relations {
		if r.PredicateURI == "ns0:p" {
			t.Fatalf("e0 no longer refers to e2 through p in its latest version, yet the incoming query returns it: %v", got)
		}
	}
}
