package vc

import (
	"encoding/json"
	"go/ast"
	"go/token"
	"go/types"
	"os"
	"strings"

	"golang.org/x/tools/go/ssa"
)

// Rename tolerance. Contracts name local variables of the functions under contract. A pure rename of a local (the
// classic harmless refactoring) must not make a contract unreadable, so the committed baseline records, per function,
// the locals in declaration order; when a name used by a contract no longer exists in the function but the function
// still declares the same NUMBER of locals, the name is mapped to the local declared at the same position.
// Anything else (locals added or removed as well) is left unresolved and reported as a structure change.

// typesInfos holds the type information of the loaded packages (filled by Load).
var typesInfos = map[*types.Package]*types.Info{}

// LocalsBaseline maps a canonical function name to its locals in declaration order.
var LocalsBaseline map[string][]string

// LoadLocalsBaseline reads the committed baseline (absent file: no tolerance).
func LoadLocalsBaseline(path string) {
	LocalsBaseline = map[string][]string{}
	b, err := os.ReadFile(path)
	if err != nil {
		return
	}
	json.Unmarshal(b, &LocalsBaseline)
}

// declaredLocals lists the locals a function body declares (:=, var, range, type switch), in source order. Nested
// function literals are separate functions and are skipped.
func declaredLocals(fn *ssa.Function) []string {
	syn := fn.Syntax()
	if syn == nil {
		return nil
	}
	var body *ast.BlockStmt
	var ftype *ast.FuncType
	var recv *ast.FieldList
	switch n := syn.(type) {
	case *ast.FuncDecl:
		body, ftype, recv = n.Body, n.Type, n.Recv
	case *ast.FuncLit:
		body, ftype = n.Body, n.Type
	}
	if body == nil {
		return nil
	}
	var out []string
	var info *types.Info
	if rp := rootFn(fn).Pkg; rp != nil {
		info = typesInfos[rp.Pkg]
	}
	add := func(e ast.Expr) {
		if id, ok := e.(*ast.Ident); ok && id.Name != "_" {
			ty := "?"
			if info != nil {
				if obj := info.Defs[id]; obj != nil && obj.Type() != nil {
					ty = typeStr(obj.Type())
				} else if obj == nil {
					// := redeclaring an existing variable on a multi-assignment: not a new local
					if _, isDef := info.Defs[id]; !isDef && info.Uses[id] != nil {
						return
					}
				}
			}
			out = append(out, id.Name+" "+ty)
		}
	}
	// receiver, parameters and named results come first
	for _, fl := range []*ast.FieldList{recv, ftype.Params, ftype.Results} {
		if fl == nil {
			continue
		}
		for _, f := range fl.List {
			for _, nm := range f.Names {
				add(nm)
			}
		}
	}
	ast.Inspect(body, func(n ast.Node) bool {
		switch x := n.(type) {
		case *ast.FuncLit:
			return false
		case *ast.AssignStmt:
			if x.Tok == token.DEFINE {
				for _, l := range x.Lhs {
					add(l)
				}
			}
		case *ast.ValueSpec:
			for _, nm := range x.Names {
				add(nm)
			}
		case *ast.RangeStmt:
			if x.Tok == token.DEFINE {
				if x.Key != nil {
					add(x.Key)
				}
				if x.Value != nil {
					add(x.Value)
				}
			}
		case *ast.TypeSwitchStmt:
			if as, ok := x.Assign.(*ast.AssignStmt); ok && as.Tok == token.DEFINE {
				for _, l := range as.Lhs {
					add(l)
				}
			}
		}
		return true
	})
	return out
}

// renamedLocal returns the current name of the local that the baseline knows as name, or "".
func renamedLocal(fn *ssa.Function, name string) string {
	base, ok := LocalsBaseline[canonFn(fn)]
	if !ok {
		return ""
	}
	cur := declaredLocals(fn)
	if len(cur) != len(base) {
		return ""
	}
	split := func(e string) (string, string) {
		if i := strings.IndexByte(e, ' '); i >= 0 {
			return e[:i], e[i+1:]
		}
		return e, "?"
	}
	// every position must keep its type: only names may differ
	for i := range base {
		_, bt := split(base[i])
		_, ct := split(cur[i])
		if bt != ct {
			return ""
		}
	}
	for i, b := range base {
		bn, _ := split(b)
		cn, _ := split(cur[i])
		if bn == name && cn != name {
			// the old name must be gone altogether (otherwise it is not a rename)
			for _, c := range cur {
				if n, _ := split(c); n == name {
					return ""
				}
			}
			return cn
		}
	}
	return ""
}

// CollectLocals records the locals of every function under contract (and of the closures nested in them).
func (eng *Engine) CollectLocals() map[string][]string {
	out := map[string][]string{}
	var walk func(fn *ssa.Function)
	walk = func(fn *ssa.Function) {
		if l := declaredLocals(fn); len(l) > 0 {
			out[canonFn(fn)] = l
		}
		for _, a := range fn.AnonFuncs {
			walk(a)
		}
	}
	for name, spec := range eng.Contracts {
		if spec.Assumed && !spec.Inline {
			continue
		}
		if fn := eng.Funcs[name]; fn != nil {
			root := fn
			for root.Parent() != nil {
				root = root.Parent()
			}
			walk(root)
		}
	}
	return out
}

// renamedName is renamedLocal for contract identifiers, which may carry the entry-value suffix "0".
func renamedName(fn *ssa.Function, name string) string {
	for f := fn; f != nil; f = f.Parent() {
		if a := renamedLocal(f, name); a != "" {
			return a
		}
		if len(name) > 1 && name[len(name)-1] == '0' {
			if a := renamedLocal(f, name[:len(name)-1]); a != "" {
				return a + "0"
			}
		}
	}
	return ""
}
