package vc

import (
	"fmt"
	"go/constant"
	"go/types"
	"golang.org/x/tools/go/ssa"
	"strings"
)

// TV is a translated spec expression: term + optional Go type (+ location for struct-valued subobjects).
type TV struct {
	T  Term
	Ty types.Type
	LV *LValue // struct-valued sub-object reached through a pointer (no term)
}

type boundVar struct {
	T  Term
	Ty types.Type
}

// Env is a translation context for spec expressions.
type Env struct {
	u      *Unit
	st     *State
	old    *State
	cur    *State // inside old(): the state of the program point (local variables keep their current value)
	lookup func(e *Env, name string) (TV, bool)
	bound  map[string]boundVar
	pkg    *types.Package
	qctr   *int
	fn     *ssa.Function // the function whose names the contract text uses (rename tolerance, see locals.go)
	// callee: set when a callee's contract is evaluated at a call site. The callee's unit-local ghosts are then
	// arbitrary per call (never the caller's ghost of the same name) and fresh(x) only tells the caller that x is not
	// one of its own allocations
	callee       bool
	calleeGhosts map[string]bool
}

func (e *Env) withState(st *State) *Env {
	n := *e
	n.st = st
	return &n
}

func (e *Env) bind(name string, bv boundVar) *Env {
	n := *e
	n.bound = map[string]boundVar{}
	for k, v := range e.bound {
		n.bound[k] = v
	}
	n.bound[name] = bv
	return &n
}

type specErr struct{ msg string }

func (e *Env) fail(format string, a ...any) {
	panic(specErr{fmt.Sprintf(format, a...)})
}

// Bool translates a clause to a Bool term, reporting errors to the unit.
func (e *Env) Bool(x Expr, where string) (t Term, ok bool) {
	defer func() {
		if r := recover(); r != nil {
			if se, is := r.(specErr); is {
				e.u.errorf("%s: %s", where, se.msg)
				t, ok = True, false
				return
			}
			panic(r)
		}
	}()
	tv := e.tr(x)
	if tv.T.Sort != SBool {
		e.fail("expression is not boolean (sort %s)", tv.T.Sort)
	}
	return tv.T, true
}

func (e *Env) Term(x Expr, where string) (tv TV, ok bool) {
	defer func() {
		if r := recover(); r != nil {
			if se, is := r.(specErr); is {
				e.u.errorf("%s: %s", where, se.msg)
				ok = false
				return
			}
			panic(r)
		}
	}()
	return e.tr(x), true
}

// resolveType maps a spec type name to (sort, Go type or nil).
func (e *Env) resolveType(name string) (Sort, types.Type) {
	switch name {
	case "int", "uint64", "int64", "uint32", "uint16", "uint8", "byte", "uint", "int32":
		return SInt, types.Typ[types.Int]
	case "bool":
		return SBool, types.Typ[types.Bool]
	case "string":
		return SString, types.Typ[types.String]
	case "real", "float64":
		return SReal, types.Typ[types.Float64]
	case "iface", "any", "error", "interface{}":
		return SIface, types.NewInterfaceType(nil, nil)
	case "intset":
		return ArraySort(SInt, SBool), nil
	case "strset":
		return ArraySort(SString, SBool), nil
	case "intmap":
		return ArraySort(SInt, SInt), nil
	case "intseq":
		return ArraySort(SInt, SInt), nil
	case "strseq":
		return ArraySort(SInt, SString), nil
	case "strmap":
		return ArraySort(SString, SString), nil
	case "strintmap":
		return ArraySort(SString, SInt), nil
	case "intstrmap":
		return ArraySort(SInt, SString), nil
	case "slice":
		return SSlice, nil
	}
	if strings.HasPrefix(name, "*") {
		_, inner := e.resolveType(name[1:])
		if inner != nil {
			return SInt, types.NewPointer(inner)
		}
		return SInt, nil
	}
	if strings.HasPrefix(name, "[]") {
		if bt := preciseBasic(name[2:]); bt != nil {
			return SSlice, types.NewSlice(bt)
		}
		_, inner := e.resolveType(name[2:])
		if inner != nil {
			return SSlice, types.NewSlice(inner)
		}
		return SSlice, nil
	}
	pkg := e.pkg
	tn := name
	if i := strings.Index(name, "."); i >= 0 && pkg != nil {
		pn := name[:i]
		tn = name[i+1:]
		var found *types.Package
		if pkg.Name() == pn {
			found = pkg
		}
		for _, imp := range pkg.Imports() {
			if imp.Name() == pn {
				found = imp
			}
		}
		if found == nil {
			// search all known packages
			for _, p := range e.u.eng.Prog.AllPackages() {
				if p.Pkg.Name() == pn {
					found = p.Pkg
					break
				}
			}
		}
		pkg = found
	}
	if pkg != nil {
		if obj := pkg.Scope().Lookup(tn); obj != nil {
			if t, ok := obj.(*types.TypeName); ok {
				return sortOf(t.Type()), t.Type()
			}
		}
	}
	e.fail("unknown spec type %q", name)
	return SInt, nil
}

func (e *Env) tr(x Expr) TV {
	switch x := x.(type) {
	case *ELit:
		switch x.Kind {
		case "int":
			if strings.HasPrefix(x.Val, "0x") {
				var n int64
				fmt.Sscanf(x.Val, "0x%x", &n)
				return TV{T: IntLit(n), Ty: types.Typ[types.Int]}
			}
			return TV{T: BigIntLit(x.Val), Ty: types.Typ[types.Int]}
		case "string":
			return TV{T: StrLit(x.Val), Ty: types.Typ[types.String]}
		case "bool":
			return TV{T: BoolLit(x.Val == "true"), Ty: types.Typ[types.Bool]}
		case "nil":
			return TV{T: Term{"nil", "Nil"}}
		}
	case *EIdent:
		if bv, ok := e.bound[x.Name]; ok {
			return TV{T: bv.T, Ty: bv.Ty}
		}
		if e.calleeGhosts[x.Name] && e.lookup != nil {
			if tv, ok := e.lookup(e, x.Name); ok {
				return tv
			}
		}
		if g, ok := e.st.ghost[x.Name]; ok {
			return TV{T: g, Ty: e.u.ghostTy[x.Name]}
		}
		if gt, ok := e.u.eng.GlobalGhosts[x.Name]; ok {
			srt, ty := e.resolveType(gt)
			return TV{T: e.u.ghostInit(x.Name, srt), Ty: ty}
		}
		if e.lookup != nil {
			if tv, ok := e.lookup(e, x.Name); ok {
				return tv
			}
		}
		if c, ok := e.u.eng.Consts[x.Name]; ok {
			ce, err := ParseExpr(c)
			if err != nil {
				e.fail("const %s: %v", x.Name, err)
			}
			return e.tr(ce)
		}
		// package-level constants
		if e.pkg != nil {
			if obj := e.pkg.Scope().Lookup(x.Name); obj != nil {
				if c, ok := obj.(*types.Const); ok {
					return TV{T: constTerm(c.Val(), c.Type()), Ty: c.Type()}
				}
			}
		}
		// a parameter, result or local that was merely renamed since the committed baseline
		if e.fn != nil && e.lookup != nil {
			if alias := renamedName(e.fn, x.Name); alias != "" {
				if tv, ok := e.lookup(e, alias); ok {
					e.u.AssumedUse["name "+x.Name+" of "+canonFn(e.fn)+" read as its renamed successor "+alias] = true
					return tv
				}
			}
		}
		e.fail("unknown name %q", x.Name)
	case *EUnary:
		v := e.tr(x.X)
		if x.Op == "!" {
			return TV{T: Not(v.T), Ty: types.Typ[types.Bool]}
		}
		return TV{T: App("-", v.T.Sort, v.T), Ty: v.Ty}
	case *EOld:
		if e.old == nil {
			e.fail("old() not available here")
		}
		n := *e
		n.st = e.old
		if e.cur == nil {
			n.cur = e.st
		}
		return n.tr(x.X)
	case *ECond:
		c := e.tr(x.C)
		a := e.tr(x.A)
		b := e.tr(x.B)
		a, b = e.unifyNil(a, b)
		return TV{T: Ite(c.T, a.T, b.T), Ty: a.Ty}
	case *EBinary:
		return e.trBinary(x)
	case *EField:
		return e.trField(x)
	case *EIndex:
		return e.trIndex(x)
	case *ESlice:
		return e.trSlice(x)
	case *ECall:
		return e.trCall(x)
	case *EQuant:
		return e.trQuant(x)
	}
	e.fail("unsupported spec expression %T", x)
	return TV{}
}

func constTerm(v constant.Value, t types.Type) Term {
	switch v.Kind() {
	case constant.Bool:
		return BoolLit(constant.BoolVal(v))
	case constant.String:
		return StrLit(constant.StringVal(v))
	case constant.Int:
		if sortOf(t) == SReal {
			return Term{v.ExactString() + ".0", SReal}
		}
		return BigIntLit(v.ExactString())
	case constant.Float:
		f, _ := constant.Float64Val(v)
		s := fmt.Sprintf("%f", f)
		if f < 0 {
			s = fmt.Sprintf("(- %f)", -f)
		}
		if sortOf(t) == SInt {
			return BigIntLit(fmt.Sprintf("%d", int64(f)))
		}
		return Term{s, SReal}
	}
	return IntLit(0)
}

// unifyNil gives an untyped nil the sort of the other operand.
func (e *Env) unifyNil(a, b TV) (TV, TV) {
	if a.T.Sort == "Nil" && b.T.Sort != "Nil" {
		a = TV{T: nilOf(b.T.Sort), Ty: b.Ty}
	}
	if b.T.Sort == "Nil" && a.T.Sort != "Nil" {
		b = TV{T: nilOf(a.T.Sort), Ty: a.Ty}
	}
	return a, b
}

func nilOf(s Sort) Term {
	switch s {
	case SIface:
		return Term{"nil_iface", SIface}
	case SSlice:
		return Term{"nil_slice", SSlice}
	}
	return zeroOf(s)
}

func (e *Env) trBinary(x *EBinary) TV {
	a := e.tr(x.X)
	b := e.tr(x.Y)
	boolT := types.Typ[types.Bool]
	switch x.Op {
	case "&&":
		return TV{T: And(a.T, b.T), Ty: boolT}
	case "||":
		return TV{T: Or(a.T, b.T), Ty: boolT}
	case "==>":
		return TV{T: Implies(a.T, b.T), Ty: boolT}
	case "<==>":
		return TV{T: Eq(a.T, b.T), Ty: boolT}
	case "==", "!=":
		a, b = e.unifyNil(a, b)
		var t Term
		if a.T.Sort == SSlice && (b.T.S == "nil_slice" || a.T.S == "nil_slice") {
			// slice == nil compares the backing array only
			t = Eq(App("s_arr", SInt, a.T), App("s_arr", SInt, b.T))
		} else if a.T.Sort != b.T.Sort {
			if a.T.Sort == SInt && b.T.Sort == SReal {
				a.T = App("to_real", SReal, a.T)
			} else if b.T.Sort == SInt && a.T.Sort == SReal {
				b.T = App("to_real", SReal, b.T)
			} else {
				e.fail("comparing %s with %s", a.T.Sort, b.T.Sort)
			}
			t = Eq(a.T, b.T)
		} else {
			t = Eq(a.T, b.T)
		}
		if x.Op == "!=" {
			t = Not(t)
		}
		return TV{T: t, Ty: boolT}
	case "<", "<=", ">", ">=":
		if a.T.Sort == SString {
			switch x.Op {
			case "<":
				return TV{T: App("str.<", SBool, a.T, b.T), Ty: boolT}
			case "<=":
				return TV{T: App("str.<=", SBool, a.T, b.T), Ty: boolT}
			case ">":
				return TV{T: App("str.<", SBool, b.T, a.T), Ty: boolT}
			default:
				return TV{T: App("str.<=", SBool, b.T, a.T), Ty: boolT}
			}
		}
		return TV{T: App(x.Op, SBool, a.T, b.T), Ty: boolT}
	case "+":
		if a.T.Sort == SString {
			return TV{T: App("str.++", SString, a.T, b.T), Ty: a.Ty}
		}
		return TV{T: App("+", a.T.Sort, a.T, b.T), Ty: a.Ty}
	case "-":
		return TV{T: App("-", a.T.Sort, a.T, b.T), Ty: a.Ty}
	case "*":
		return TV{T: App("*", a.T.Sort, a.T, b.T), Ty: a.Ty}
	case "/":
		if a.T.Sort == SReal {
			return TV{T: App("/", SReal, a.T, b.T), Ty: a.Ty}
		}
		return TV{T: App("go_div", SInt, a.T, b.T), Ty: a.Ty}
	case "%":
		return TV{T: App("go_mod", SInt, a.T, b.T), Ty: a.Ty}
	}
	e.fail("unknown operator %s", x.Op)
	return TV{}
}

// structOf returns the struct type and whether v is a pointer to it.
func structOf(t types.Type) (*types.Struct, types.Type, bool) {
	if t == nil {
		return nil, nil, false
	}
	if p, ok := t.Underlying().(*types.Pointer); ok {
		if s, ok := p.Elem().Underlying().(*types.Struct); ok {
			return s, p.Elem(), true
		}
		return nil, nil, false
	}
	if s, ok := t.Underlying().(*types.Struct); ok {
		return s, t, false
	}
	return nil, nil, false
}

// findField locates a (possibly promoted through embedded value structs) field; returns the path of field names.
func findField(s *types.Struct, name string) ([]string, types.Type, bool) {
	for i := 0; i < s.NumFields(); i++ {
		f := s.Field(i)
		if f.Name() == name {
			return []string{name}, f.Type(), true
		}
	}
	for i := 0; i < s.NumFields(); i++ {
		f := s.Field(i)
		if f.Embedded() {
			if es, ok := f.Type().Underlying().(*types.Struct); ok {
				if p, t, ok := findField(es, name); ok {
					return append([]string{f.Name()}, p...), t, true
				}
			}
		}
	}
	return nil, nil, false
}

func (e *Env) trField(x *EField) TV {
	// pkg.Const: a constant of an imported package (the qualifier must not be a variable in scope)
	if id, ok := x.X.(*EIdent); ok && e.pkg != nil {
		shadowed := false
		if _, bound := e.bound[id.Name]; bound {
			shadowed = true
		}
		if !shadowed && e.lookup != nil {
			if _, found := e.lookup(e, id.Name); found {
				shadowed = true
			}
		}
		if !shadowed {
			for _, imp := range e.pkg.Imports() {
				if imp.Name() == id.Name {
					if c, ok := imp.Scope().Lookup(x.Name).(*types.Const); ok {
						return TV{T: constTerm(c.Val(), c.Type()), Ty: c.Type()}
					}
				}
			}
		}
	}
	base := e.tr(x.X)
	// struct-valued sub-object reached through a pointer
	if base.LV != nil && base.LV.Kind == "field" && base.T.S == "" {
		st, ok := base.LV.Ty.Underlying().(*types.Struct)
		if !ok {
			e.fail("field %s of non-struct", x.Name)
		}
		path, fty, ok := findField(st, x.Name)
		if !ok {
			e.fail("no field %s", x.Name)
		}
		full := append(append([]string{}, base.LV.Path...), path...)
		return e.loadFieldPath(base.LV.Base, base.LV.Owner, full, fty)
	}
	st, owner, isPtr := structOf(base.Ty)
	if st == nil {
		e.fail("field access .%s on a value without struct type (%v)", x.Name, base.Ty)
	}
	path, fty, ok := findField(st, x.Name)
	if !ok {
		e.fail("type %s has no field %s", typeStr(owner), x.Name)
	}
	if isPtr {
		return e.loadFieldPath(base.T, owner, path, fty)
	}
	// struct value: value-field function
	return e.valueField(base.T, owner, path, fty)
}

func (e *Env) loadFieldPath(ptr Term, owner types.Type, path []string, fty types.Type) TV {
	if _, isStruct := fty.Underlying().(*types.Struct); isStruct {
		return TV{Ty: fty, LV: &LValue{Kind: "field", Base: ptr, Owner: owner, Path: path, Ty: fty}}
	}
	class := fieldClass(owner, path)
	srt := sortOf(fty)
	arr := e.u.heapGet(e.st, class, ArraySort(SInt, srt))
	return TV{T: Select(arr, ptr), Ty: fty}
}

func (e *Env) valueField(v Term, owner types.Type, path []string, fty types.Type) TV {
	fn := e.u.valueFieldFun(owner, path, fty)
	return TV{T: App(fn, sortOf(fty), v), Ty: fty}
}

// valueFieldFun declares (once) the projection function of a struct value.
func (u *Unit) valueFieldFun(owner types.Type, path []string, fty types.Type) string {
	name := "VF_" + sanitize(structKey(owner)) + "_" + sanitize(strings.Join(path, "_"))
	u.defs.DeclareFun(name, fmt.Sprintf("(declare-fun %s (Int) %s)", name, sortOf(fty)))
	return name
}

func (e *Env) trIndex(x *EIndex) TV {
	base := e.tr(x.X)
	idx := e.tr(x.I)
	if base.Ty != nil {
		switch t := base.Ty.Underlying().(type) {
		case *types.Slice:
			cls := elemClass(t.Elem())
			es := sortOf(t.Elem())
			arr := e.u.heapGet(e.st, cls, ArraySort(SInt, ArraySort(SInt, es)))
			return TV{T: Select(Select(arr, App("s_arr", SInt, base.T)), App("sl_idx", SInt, base.T, idx.T)), Ty: t.Elem()}
		case *types.Map:
			vs := sortOf(t.Elem())
			ks := sortOf(t.Key())
			arr := e.u.heapGet(e.st, mapValClass(t), ArraySort(SInt, ArraySort(ks, vs)))
			return TV{T: Select(Select(arr, base.T), idx.T), Ty: t.Elem()}
		case *types.Basic:
			if t.Info()&types.IsString != 0 {
				return TV{T: App("str.to_code", SInt, App("str.at", SString, base.T, idx.T)), Ty: types.Typ[types.Uint8]}
			}
		}
	}
	if strings.HasPrefix(string(base.T.Sort), "(Array ") {
		return TV{T: Select(base.T, idx.T)}
	}
	if base.T.Sort == SString {
		return TV{T: App("str.to_code", SInt, App("str.at", SString, base.T, idx.T)), Ty: types.Typ[types.Uint8]}
	}
	e.fail("cannot index a value of sort %s", base.T.Sort)
	return TV{}
}

func (e *Env) trSlice(x *ESlice) TV {
	base := e.tr(x.X)
	var lo, hi Term
	if x.Lo != nil {
		lo = e.tr(x.Lo).T
	} else {
		lo = IntLit(0)
	}
	if base.T.Sort == SString {
		if x.Hi != nil {
			hi = e.tr(x.Hi).T
		} else {
			hi = App("str.len", SInt, base.T)
		}
		return TV{T: App("str.substr", SString, base.T, lo, App("-", SInt, hi, lo)), Ty: base.Ty}
	}
	if base.T.Sort == SSlice {
		if x.Hi != nil {
			hi = e.tr(x.Hi).T
		} else {
			hi = App("s_len", SInt, base.T)
		}
		return TV{T: App("mk_slice", SSlice, App("s_arr", SInt, base.T), App("+", SInt, App("s_off", SInt, base.T), lo), App("-", SInt, hi, lo), App("-", SInt, App("s_cap", SInt, base.T), lo)), Ty: base.Ty}
	}
	e.fail("cannot slice a value of sort %s", base.T.Sort)
	return TV{}
}

func (e *Env) trQuant(x *EQuant) TV {
	n := e
	var decls []string
	var guards []Term
	for _, v := range x.Vars {
		srt, ty := e.resolveType(v.Type)
		*e.qctr++
		name := fmt.Sprintf("q%d_%s", *e.qctr, v.Name)
		t := Term{name, srt}
		n = n.bind(v.Name, boundVar{T: t, Ty: ty})
		decls = append(decls, fmt.Sprintf("(%s %s)", name, srt))
		_ = guards
	}
	body := n.tr(x.Body)
	if body.T.Sort != SBool {
		e.fail("quantifier body is not boolean")
	}
	q := "forall"
	if !x.Forall {
		q = "exists"
	}
	return TV{T: Term{fmt.Sprintf("(%s (%s) %s)", q, strings.Join(decls, " "), body.T.S), SBool}, Ty: types.Typ[types.Bool]}
}

func (e *Env) trCall(x *ECall) TV {
	args := make([]TV, len(x.Args))
	argOf := func(i int) TV {
		if args[i].T.S == "" && args[i].LV == nil {
			args[i] = e.tr(x.Args[i])
		}
		return args[i]
	}
	need := func(n int) {
		if len(x.Args) != n {
			e.fail("%s expects %d arguments", x.Fn, n)
		}
	}
	intT := types.Typ[types.Int]
	boolT := types.Typ[types.Bool]
	strT := types.Typ[types.String]
	switch x.Fn {
	case "len":
		need(1)
		a := argOf(0)
		switch {
		case a.T.Sort == SString:
			return TV{T: App("str.len", SInt, a.T), Ty: intT}
		case a.T.Sort == SSlice:
			return TV{T: App("s_len", SInt, a.T), Ty: intT}
		case a.Ty != nil:
			if m, ok := a.Ty.Underlying().(*types.Map); ok {
				arr := e.u.heapGet(e.st, "MapLen."+mapDomClass(m)[7:], ArraySort(SInt, SInt))
				return TV{T: Select(arr, a.T), Ty: intT}
			}
		}
		e.fail("len of sort %s", a.T.Sort)
	case "bytesStr": // string(b) for a []byte value b in the current heap
		need(1)
		b := argOf(0)
		cls := elemClass(types.Typ[types.Uint8])
		arr := e.u.heapGet(e.st, cls, ArraySort(SInt, ArraySort(SInt, SInt)))
		return TV{T: App("bytes_str", SString, Select(arr, App("s_arr", SInt, b.T)), App("s_off", SInt, b.T), App("s_len", SInt, b.T)), Ty: strT}
	case "encBE16", "encBE32", "encBE64", "encLE64": // integer decoded from a byte slice at a byte offset (Enc.* record view)
		need(2)
		b := argOf(0)
		cls := "Enc." + x.Fn[3:]
		arr := e.u.heapGet(e.st, cls, ArraySort(SInt, ArraySort(SInt, SInt)))
		return TV{T: Select(Select(arr, App("s_arr", SInt, b.T)), App("+", SInt, App("s_off", SInt, b.T), argOf(1).T)), Ty: intT}
	case "allocated": // allocated(x): the reference exists at this program point (it is not above the allocation frontier)
		need(1)
		a := argOf(0)
		top := e.u.topOf(e.st)
		if a.T.Sort == SSlice {
			return TV{T: App("<=", SBool, App("s_arr", SInt, a.T), top), Ty: boolT}
		}
		return TV{T: App("<=", SBool, a.T, top), Ty: boolT}
	case "foreign": // foreign(x): the reference was not allocated by the unit under verification (fresh or pre-existing elsewhere)
		need(1)
		a := argOf(0)
		if e.u.allocBase.S == "" {
			return TV{T: True, Ty: boolT}
		}
		if a.T.Sort == SSlice {
			return TV{T: App("<", SBool, App("s_arr", SInt, a.T), e.u.allocBase), Ty: boolT}
		}
		return TV{T: App("<", SBool, a.T, e.u.allocBase), Ty: boolT}
	case "fresh": // fresh(x): x was allocated by this call. In the unit's own post-condition: x is one of the unit's allocations;
		// at a call site of the unit: x is not one of the caller's allocations (what foreign(x) says)
		need(1)
		a := argOf(0)
		if e.u.allocBase.S == "" {
			return TV{T: True, Ty: boolT}
		}
		at := a.T
		if a.T.Sort == SSlice {
			at = App("s_arr", SInt, a.T)
		}
		if e.callee {
			return TV{T: App("<", SBool, at, e.u.allocBase), Ty: boolT}
		}
		return TV{T: And(App(">", SBool, at, e.u.allocBase), App("<=", SBool, at, e.u.topOf(e.st))), Ty: boolT}
	case "ifacePtr": // the reference (pointer, map) held by an interface value
		need(1)
		return TV{T: App("iint", SInt, argOf(0).T), Ty: intT}
	case "lockerAddr": // the pointer held by a sync.Locker interface value
		need(1)
		return TV{T: App("iint", SInt, argOf(0).T), Ty: intT}
	case "kindOf": // kindOf(lockAddr): which (type, field) a value-struct field address belongs to
		need(1)
		return TV{T: App("mod", SInt, argOf(0).T, IntLit(1000000007)), Ty: intT}
	case "ownerOf": // ownerOf(lockAddr): the object holding the field
		need(1)
		return TV{T: App("div", SInt, argOf(0).T, IntLit(1000000007)), Ty: intT}
	case "lockKind": // lockKind("pkg.Type", "field"): the kind number of that field
		need(2)
		tl, ok1 := x.Args[0].(*ELit)
		fl, ok2 := x.Args[1].(*ELit)
		if !ok1 || !ok2 {
			e.fail("lockKind needs two string literals")
		}
		var ty types.Type
		func() {
			defer func() {
				if r := recover(); r != nil {
					if _, is := r.(specErr); !is {
						panic(r)
					}
				}
			}()
			_, ty = e.resolveType(tl.Val)
		}()
		if ty == nil {
			// the package declaring the type is not part of this run: no lock of that kind can occur
			h := int64(0)
			for _, c := range tl.Val + "." + fl.Val {
				h = (h*31 + int64(c)) % 1000003
			}
			return TV{T: IntLit(-1 - h), Ty: intT}
		}
		st, ok := ty.Underlying().(*types.Struct)
		if !ok {
			e.fail("lockKind: %s is not a struct", tl.Val)
		}
		for i := 0; i < st.NumFields(); i++ {
			if st.Field(i).Name() == fl.Val {
				return TV{T: IntLit(int64(e.u.eng.tids.id(types.NewPointer(st.Field(i).Type()))*1000 + 100 + i)), Ty: intT}
			}
		}
		e.fail("lockKind: no field %s in %s", fl.Val, tl.Val)
	case "errIs": // errors.Is(e, target)
		need(2)
		return TV{T: App("err_is", SBool, argOf(0).T, argOf(1).T), Ty: boolT}
	case "arrOf": // identity of the backing array of a slice
		need(1)
		return TV{T: App("s_arr", SInt, argOf(0).T), Ty: intT}
	case "offOf": // offset of the slice in its backing array
		need(1)
		return TV{T: App("s_off", SInt, argOf(0).T), Ty: intT}
	case "cap":
		need(1)
		return TV{T: App("s_cap", SInt, argOf(0).T), Ty: intT}
	case "hasPrefix":
		need(2)
		return TV{T: App("str.prefixof", SBool, argOf(1).T, argOf(0).T), Ty: boolT}
	case "hasSuffix":
		need(2)
		return TV{T: App("str.suffixof", SBool, argOf(1).T, argOf(0).T), Ty: boolT}
	case "contains":
		need(2)
		return TV{T: App("str.contains", SBool, argOf(0).T, argOf(1).T), Ty: boolT}
	case "indexOf":
		need(2)
		return TV{T: App("str.indexof", SInt, argOf(0).T, argOf(1).T, IntLit(0)), Ty: intT}
	case "indexFrom":
		need(3)
		return TV{T: App("str.indexof", SInt, argOf(0).T, argOf(1).T, argOf(2).T), Ty: intT}
	case "substr":
		need(3)
		return TV{T: App("str.substr", SString, argOf(0).T, argOf(1).T, App("-", SInt, argOf(2).T, argOf(1).T)), Ty: strT}
	case "itoa":
		need(1)
		return TV{T: App("itoa", SString, argOf(0).T), Ty: strT}
	case "atoi": // atoi(s): the value strconv.Atoi yields for the text s (whatever it is when the conversion fails)
		need(1)
		return TV{T: App("atoi_val", SInt, argOf(0).T), Ty: intT}
	case "atoiOk": // atoiOk(s): strconv.Atoi accepts the text s
		need(1)
		return TV{T: Eq(App("atoi_err", SIface, argOf(0).T), Term{"nil_iface", SIface}), Ty: boolT}
	case "has": // has(m, k): key k in map m (Go map) or set membership in an SMT set
		need(2)
		a := argOf(0)
		k := argOf(1)
		if a.Ty != nil {
			if m, ok := a.Ty.Underlying().(*types.Map); ok {
				arr := e.u.heapGet(e.st, mapDomClass(m), ArraySort(SInt, ArraySort(sortOf(m.Key()), SBool)))
				return TV{T: And(Not(Eq(a.T, IntLit(0))), Select(Select(arr, a.T), k.T)), Ty: boolT}
			}
		}
		if strings.HasPrefix(string(a.T.Sort), "(Array ") {
			return TV{T: Select(a.T, k.T), Ty: boolT}
		}
		e.fail("has() on sort %s", a.T.Sort)
	case "add": // add(set, k)
		need(2)
		return TV{T: Store(argOf(0).T, argOf(1).T, True)}
	case "put": // put(map, k, v)
		need(3)
		return TV{T: Store(argOf(0).T, argOf(1).T, argOf(2).T)}
	case "emptyset":
		need(0)
		return TV{T: Term{"((as const (Array Int Bool)) false)", ArraySort(SInt, SBool)}}
	case "emptystrset":
		need(0)
		return TV{T: Term{"((as const (Array String Bool)) false)", ArraySort(SString, SBool)}}
	case "isnil":
		need(1)
		a := argOf(0)
		return TV{T: Eq(a.T, nilOf(a.T.Sort)), Ty: boolT}
	case "typeof": // interface dynamic type id
		need(1)
		return TV{T: App("ityp", SInt, argOf(0).T), Ty: intT}
	case "addrOf": // addrOf(p.field): identity of a value-struct field (e.g. an embedded mutex)
		need(1)
		fe, ok := x.Args[0].(*EField)
		if !ok {
			e.fail("addrOf needs p.field")
		}
		base := e.tr(fe.X)
		st, owner, isPtr := structOf(base.Ty)
		if st == nil || !isPtr {
			e.fail("addrOf: %v is not a pointer to a struct", base.Ty)
		}
		for i := 0; i < st.NumFields(); i++ {
			if st.Field(i).Name() == fe.Name {
				_ = owner
				return TV{T: e.u.fieldAddrTerm(base.T, st.Field(i).Type(), 1, i), Ty: types.NewPointer(st.Field(i).Type())}
			}
		}
		e.fail("addrOf: no field %s", fe.Name)
	case "cast": // cast(ifaceValue, "*pkg.T"): the concrete value held by an interface
		need(2)
		lit, ok := x.Args[1].(*ELit)
		if !ok {
			e.fail("cast needs a type string literal")
		}
		_, ty := e.resolveType(lit.Val)
		if bt := preciseBasic(lit.Val); bt != nil {
			ty = bt
		}
		if ty == nil {
			e.fail("cast: unknown type %s", lit.Val)
		}
		return TV{T: e.u.unboxIface(argOf(0).T, ty), Ty: ty}
	case "box": // box(value, "T"): the interface value holding `value` as a T (what Go builds for `any(T(value))`)
		need(2)
		lit, ok := x.Args[1].(*ELit)
		if !ok {
			e.fail("box needs a type string literal")
		}
		_, ty := e.resolveType(lit.Val)
		if bt := preciseBasic(lit.Val); bt != nil {
			ty = bt
		}
		if ty == nil {
			e.fail("box: unknown type %s", lit.Val)
		}
		return TV{T: e.u.boxIface(Val{T: argOf(0).T, Ty: ty}, ty), Ty: types.NewInterfaceType(nil, nil)}
	case "typeid": // typeid("pkg.T") / typeid("*pkg.T") / typeid("string")
		need(1)
		lit, ok := x.Args[0].(*ELit)
		if !ok {
			e.fail("typeid needs a string literal")
		}
		_, ty := e.resolveType(lit.Val)
		if bt := preciseBasic(lit.Val); bt != nil {
			ty = bt
		}
		if ty == nil {
			e.fail("typeid: unknown type %s", lit.Val)
		}
		return TV{T: IntLit(int64(e.u.eng.tids.id(ty))), Ty: intT}
	case "visited": // visited(k): key already visited by the current map-range loop
		need(1)
		if g, ok := e.st.ghost["$visited"]; ok {
			return TV{T: Select(g, argOf(0).T), Ty: boolT}
		}
		e.fail("visited() outside a map range loop")
	case "strByteAt": // strByteAt(s, j): the j-th byte of []byte(s) (the conversion is a function of the string)
		need(2)
		return TV{T: Select(App("str_bytes", ArraySort(SInt, SInt), argOf(0).T), argOf(1).T), Ty: intT}
	case "trunc": // trunc(x): Go's conversion of a float64 to an integer type (truncation toward zero)
		need(1)
		x := argOf(0).T
		if x.Sort != SReal {
			e.fail("trunc of sort %s", x.Sort)
		}
		return TV{T: Ite(App(">=", SBool, x, Term{"0.0", SReal}), App("to_int", SInt, x), App("-", SInt, App("to_int", SInt, App("-", SReal, x)))), Ty: intT}
	case "min":
		need(2)
		return TV{T: Ite(App("<=", SBool, argOf(0).T, argOf(1).T), argOf(0).T, argOf(1).T), Ty: intT}
	case "max":
		need(2)
		return TV{T: Ite(App(">=", SBool, argOf(0).T, argOf(1).T), argOf(0).T, argOf(1).T), Ty: intT}
	case "held": // held(lock pointer)
		need(1)
		h, ok := e.st.ghost["$held"]
		if !ok {
			h = e.u.ghostInit("$held", ArraySort(SInt, SBool))
		}
		return TV{T: Select(h, argOf(0).T), Ty: boolT}
	}
	// user spec functions
	if sf, ok := e.u.eng.SpecFuns[x.Fn]; ok {
		e.u.declareSpecFun(sf, e)
		var ts []Term
		if len(x.Args) != len(sf.Params) {
			e.fail("%s expects %d arguments", x.Fn, len(sf.Params))
		}
		for i := range x.Args {
			a := argOf(i)
			ps, _ := e.resolveType(sf.Params[i].Type)
			if a.T.Sort == "Nil" {
				a.T = nilOf(ps)
			}
			if a.T.Sort != ps {
				e.fail("%s: argument %d has sort %s, want %s", x.Fn, i, a.T.Sort, ps)
			}
			ts = append(ts, a.T)
		}
		rs, rty := e.resolveType(sf.Ret)
		if len(ts) == 0 {
			return TV{T: Term{"sf_" + sf.Name, rs}, Ty: rty}
		}
		return TV{T: App("sf_"+sf.Name, rs, ts...), Ty: rty}
	}
	e.fail("unknown spec function %q", x.Fn)
	return TV{}
}

// ghostInit returns the entry value of a global ghost variable of the unit.
func (u *Unit) ghostInit(name string, srt Sort) Term {
	if t, ok := u.gens["ghost0:"+name]; ok {
		return t
	}
	t := u.defs.Fresh("g0_"+name, srt)
	u.gens["ghost0:"+name] = t
	return t
}

// declareSpecFun emits the SMT declaration/definition of a spec function (and its dependencies).
func (u *Unit) declareSpecFun(sf *SpecFun, e *Env) {
	if u.usedSpecFuns[sf.Name] {
		return
	}
	u.usedSpecFuns[sf.Name] = true
	var ps []string
	var psorts []string
	env := &Env{u: u, st: e.st, bound: map[string]boundVar{}, pkg: e.pkg, qctr: e.qctr}
	for _, p := range sf.Params {
		s, ty := e.resolveType(p.Type)
		pn := "p_" + p.Name
		ps = append(ps, fmt.Sprintf("(%s %s)", pn, s))
		psorts = append(psorts, string(s))
		env.bound[p.Name] = boundVar{T: Term{pn, s}, Ty: ty}
	}
	rs, _ := e.resolveType(sf.Ret)
	name := "sf_" + sf.Name
	if sf.Body == nil {
		u.defs.DeclareFun(name, fmt.Sprintf("(declare-fun %s (%s) %s)", name, strings.Join(psorts, " "), rs))
		return
	}
	body := env.tr(sf.Body)
	if body.T.Sort == "Nil" {
		body.T = nilOf(rs)
	}
	u.defs.DeclareFun(name, fmt.Sprintf("(define-fun %s (%s) %s %s)", name, strings.Join(ps, " "), rs, body.T.S))
}

// preciseBasic maps the name of a sized integer type to that exact type (resolveType folds all integer names into int,
// which is right for sorts but wrong for dynamic type identities).
func preciseBasic(name string) types.Type {
	switch name {
	case "int64":
		return types.Typ[types.Int64]
	case "uint64":
		return types.Typ[types.Uint64]
	case "int32":
		return types.Typ[types.Int32]
	case "uint32":
		return types.Typ[types.Uint32]
	case "uint16":
		return types.Typ[types.Uint16]
	case "uint8", "byte":
		return types.Typ[types.Uint8]
	case "uint":
		return types.Typ[types.Uint]
	}
	return nil
}
