#!/bin/bash
# usage: tools_benign.sh <dir-with-eN/patch.diff> -- applies each behaviour-preserving edit to a scratch worktree and runs ALL
# checks against it; any VIOLATION is a false alarm of the machinery
export GOFLAGS=-mod=mod GOPROXY=off GOSUMDB=off GOTOOLCHAIN=local
wt=/var/tmp/benign-wt-$$; out=/var/tmp/benign-out-$$; mkdir -p $out
git -C /repo worktree add -q --detach "$wt" HEAD || exit 2
cp /verif/expected_obligations.json "$wt/.verif_expected.json"
trap 'git -C /repo worktree remove --force "$wt" >/dev/null 2>&1; rm -rf "$out"' EXIT
for e in "$1"/e*/; do
  ( cd "$wt" && git checkout -q -- . && git apply "$e/patch.diff" ) || { echo "$(basename $e): patch does not apply"; continue; }
  files=$(grep '^+++ b/' "$e/patch.diff" | sed 's#+++ b/##' | tr '\n' ' ')
  alarms=""
  for p in C01 C02 C03 C04 C05 C06 C07 C08 C09 C10 C11 C12 C13 C14 C15 C16 C17 C18 C19 C20; do
    res=$(cd /verif && VERIF_OUT="$out" ./bin/vcgen check $p --repo="$wt" 2>&1)
    if echo "$res" | grep -q "VIOLATION"; then alarms="$alarms $p[$(echo "$res" | grep 'failed:' | head -2 | sed 's/  failed: //' | tr '\n' ';' | cut -c1-230)]"; fi
  done
  echo "$(basename $e) ($files): ${alarms:-no alarm}"
done
