#!/bin/bash
# usage: tools_wave.sh <wave-tag> <prop> ...   -- confirms the two mutations an agent left in /tmp/seedw/<tag>-<prop>/out-<prop>/m{1,2}
# as seeds <prop>-m<next>, <prop>-m<next+1> (tools_seed.sh), then removes the agent's worktree
tag=$1; shift
for prop in "$@"; do
  base=/tmp/seedw/$tag-$prop
  for n in 1 2; do
    src=$base/out-$prop/m$n
    [ -f "$src/patch.diff" ] || { echo "$prop m$n: no patch"; continue; }
    demo=$(ls "$src"/zz_demo_*_test.go 2>/dev/null | head -1)
    [ -n "$demo" ] || { echo "$prop m$n: no demo"; continue; }
    pk=$(grep -m1 '^package ' "$demo" | awk '{print $2}' | sed 's/_test$//')
    case $pk in
      server) dir=internal/server;; web) dir=internal/web;; jobs) dir=internal/jobs;; source) dir=internal/jobs/source;;
      dataset) dir=internal/service/dataset;; security) dir=internal/security;; middlewares) dir=internal/web/middlewares;;
      entity) dir=internal/service/entity;; store) dir=internal/service/store;; namespace) dir=internal/service/namespace;;
      *) echo "$prop m$n: unknown package $pk"; continue;;
    esac
    k=1; while [ -d /verif/seeded/$prop-m$k ]; do k=$((k+1)); done
    /verif/tools_seed.sh $prop-m$k $prop "$src" $dir
  done
  git -C /repo worktree remove --force $base/wt 2>/dev/null
  rm -rf $base
done
