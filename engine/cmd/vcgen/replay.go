package main

// tryReplay instantiates a replay template for a refuted obligation and runs it against the real code.
// Returns nil when no template exists for the obligation.
func tryReplay(prop string, failed map[string]any, repo string) map[string]any {
	return nil
}
