#!/bin/bash
# usage: tools_trypatch.sh <Cxx> <patch.diff>  -- applies a patch to a scratch worktree of /repo HEAD, runs the check against it
# with evidence/replay output in a scratch directory, prints the verdict lines; /repo itself is not touched
set -u
P=$1; D=$2
export GOFLAGS=-mod=mod GOPROXY=off GOSUMDB=off GOTOOLCHAIN=local
wt=/var/tmp/trypatch-wt-$$
OUT=/var/tmp/trypatch-out-$$
git -C /repo worktree add -q --detach "$wt" HEAD || exit 2
cp /verif/expected_obligations.json "$wt/.verif_expected.json"  # the baseline that belongs to this commit
trap 'git -C /repo worktree remove --force "$wt" >/dev/null 2>&1; [ -z "${KEEP_OUT:-}" ] && rm -rf "$OUT"' EXIT
( cd "$wt" && git apply "$D" ) || { echo "apply failed"; exit 2; }
mkdir -p "$OUT"
VERIF_OUT=$OUT /verif/bin/vcgen check "$P" --repo="$wt" 2>&1 | grep -E "VIOLATION|failed:|undecided|FAIL|error|^OK" | head -${LINES_MAX:-8}
echo "exit=${PIPESTATUS[0]}"
[ -n "${KEEP_OUT:-}" ] && echo "out kept in $OUT"
exit 0
