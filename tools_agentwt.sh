#!/bin/bash
# usage: tools_agentwt.sh <tag> <PROPID>  -- creates a scratch worktree for a mutation sub-agent and prints its prompt
# (the prompt contains only the property text and the worktree path; contract files are removed from the worktree)
set -eu
tag="$1"; prop="$2"
base=/tmp/seedw/$tag
mkdir -p "$base"
git -C /repo worktree add -q --detach "$base/wt" HEAD
find "$base/wt" -name verif_contracts.go -delete
python3 - "$base" "$prop" <<'PY'
import json,sys
base,prop=sys.argv[1:3]
t=open('/verif/seeded/agent_prompt_template.txt').read()
p=[json.loads(l) for l in open('/verif/properties.jsonl') if json.loads(l)['id']==prop][0]
print(t.replace('<WORKTREE>',base+'/wt').replace('<PROPID>',prop).replace('<PROPERTY>',json.dumps(p,indent=1)))
PY
