package server

// Conformance tests of the ASSUMED library contracts in /verif/prelude (badger iterators and transactions, sequences,
// byte order of the key families, encoding/json, base64, strconv). This is TESTING OF ASSUMPTIONS against the real
// libraries, run by the thorough tier through `go test -overlay` (nothing is written into the repository); it is reported
// as such in the evidence and never counted as proof.

import (
	"bytes"
	"encoding/base64"
	"encoding/binary"
	"encoding/json"
	"errors"
	"math/rand"
	"os"
	"reflect"
	"sort"
	"strconv"
	"testing"

	"github.com/dgraph-io/badger/v4"
)

func zzSeed() int64 {
	if s, err := strconv.ParseInt(os.Getenv("VERIF_SEED"), 10, 64); err == nil {
		return s
	}
	return 1
}

func zzOpen(t *testing.T) (*badger.DB, string) {
	dir, err := os.MkdirTemp("", "zzconf")
	if err != nil {
		t.Fatal(err)
	}
	db, err := badger.Open(badger.DefaultOptions(dir).WithLoggingLevel(badger.ERROR))
	if err != nil {
		t.Fatal(err)
	}
	return db, dir
}

// random keys of the hub's families: class(2) ds(4) u64 [u64 ...]
func zzKeys(r *rand.Rand, n int) [][]byte {
	var ks [][]byte
	seen := map[string]bool{}
	for len(ks) < n {
		var k []byte
		switch r.Intn(3) {
		case 0: // change log: 4 | ds | seq | rid  (22 bytes)
			k = make([]byte, 22)
			binary.BigEndian.PutUint16(k, 4)
			binary.BigEndian.PutUint32(k[2:], uint32(r.Intn(3)+1))
			binary.BigEndian.PutUint64(k[6:], uint64(r.Intn(300)))
			binary.BigEndian.PutUint64(k[14:], uint64(r.Intn(5)))
		case 1: // latest pointer: 8 | ds | rid (14 bytes)
			k = make([]byte, 14)
			binary.BigEndian.PutUint16(k, 8)
			binary.BigEndian.PutUint32(k[2:], uint32(r.Intn(3)+1))
			binary.BigEndian.PutUint64(k[6:], uint64(r.Intn(40)))
		default: // json: 1 | rid | ds | time | batch (24 bytes)
			k = make([]byte, 24)
			binary.BigEndian.PutUint16(k, 1)
			binary.BigEndian.PutUint64(k[2:], uint64(r.Intn(6)))
			binary.BigEndian.PutUint32(k[10:], uint32(r.Intn(3)+1))
			binary.BigEndian.PutUint64(k[14:], uint64(r.Int63n(1<<40)))
			binary.BigEndian.PutUint16(k[22:], uint16(r.Intn(3)))
		}
		if !seen[string(k)] {
			seen[string(k)] = true
			ks = append(ks, k)
		}
	}
	return ks
}

// prelude/badger.ct: Seek / Next / Valid / ValidForPrefix / Item / Key on forward and reverse iterators over the sorted
// sequence K(t, 0..N)
func TestZZConformanceIterators(t *testing.T) {
	r := rand.New(rand.NewSource(zzSeed()))
	db, dir := zzOpen(t)
	defer os.RemoveAll(dir)
	defer db.Close()
	ks := zzKeys(r, 200)
	if err := db.Update(func(txn *badger.Txn) error {
		for _, k := range ks {
			if err := txn.Set(k, []byte{1}); err != nil {
				return err
			}
		}
		return nil
	}); err != nil {
		t.Fatal(err)
	}
	sorted := append([][]byte{}, ks...)
	sort.Slice(sorted, func(i, j int) bool { return bytes.Compare(sorted[i], sorted[j]) < 0 })
	_ = db.View(func(txn *badger.Txn) error {
		for trial := 0; trial < 300; trial++ {
			probe := zzKeys(r, 1)[0]
			if r.Intn(2) == 0 {
				probe = probe[:2+r.Intn(len(probe)-2)] // the hub also seeks with 6-, 10-, 14-byte search keys
			}
			var prefix []byte
			if r.Intn(2) == 0 {
				prefix = probe[:[]int{2, 6}[r.Intn(2)]]
			}
			// forward
			opts := badger.DefaultIteratorOptions
			opts.Prefix = prefix
			it := txn.NewIterator(opts)
			it.Seek(probe)
			pos := sort.Search(len(sorted), func(i int) bool { return bytes.Compare(sorted[i], probe) >= 0 })
			for steps := 0; steps < 5; steps++ {
				inRange := pos < len(sorted)
				wantValid := inRange && bytes.HasPrefix(sorted[pos], prefix)
				if it.Valid() != wantValid {
					t.Fatalf("forward Valid: pos %d probe %x prefix %x: got %v want %v", pos, probe, prefix, it.Valid(), wantValid)
				}
				if wantValid {
					if !bytes.Equal(it.Item().Key(), sorted[pos]) {
						t.Fatalf("forward Item().Key(): got %x want %x", it.Item().Key(), sorted[pos])
					}
					p2 := sorted[pos][:[]int{2, 6, 10}[r.Intn(3)]]
					if it.ValidForPrefix(p2) != bytes.HasPrefix(sorted[pos], p2) {
						t.Fatalf("ValidForPrefix(%x) at %x", p2, sorted[pos])
					}
				} else {
					break
				}
				it.Next()
				pos++
			}
			it.Close()
			// reverse (no prefix option: the hub's reverse scans use ValidForPrefix only)
			ro := badger.DefaultIteratorOptions
			ro.Reverse = true
			rit := txn.NewIterator(ro)
			rprobe := append(append([]byte{}, probe...), 0xFF) // the hub seeks reverse iterators with a trailing 0xFF
			rit.Seek(rprobe)
			rpos := sort.Search(len(sorted), func(i int) bool { return bytes.Compare(sorted[i], rprobe) > 0 }) - 1
			for steps := 0; steps < 5; steps++ {
				if rit.Valid() != (rpos >= 0) {
					t.Fatalf("reverse Valid at %d", rpos)
				}
				if rpos < 0 {
					break
				}
				if !bytes.Equal(rit.Item().Key(), sorted[rpos]) {
					t.Fatalf("reverse Item().Key(): got %x want %x", rit.Item().Key(), sorted[rpos])
				}
				rit.Next()
				rpos--
			}
			rit.Close()
		}
		return nil
	})
}

// prelude/badger.ct key-order axioms: byte-lexicographic order on the fixed-width big-endian key families is tuple order
func TestZZConformanceKeyOrder(t *testing.T) {
	r := rand.New(rand.NewSource(zzSeed()))
	ks := zzKeys(r, 400)
	for i := 0; i < 4000; i++ {
		a, b := ks[r.Intn(len(ks))], ks[r.Intn(len(ks))]
		ca, cb := binary.BigEndian.Uint16(a), binary.BigEndian.Uint16(b)
		lt := bytes.Compare(a, b) < 0
		if lt && ca > cb {
			t.Fatalf("klt_class violated: %x %x", a, b)
		}
		if ca == 4 && cb == 4 && lt {
			da, db_ := binary.BigEndian.Uint32(a[2:]), binary.BigEndian.Uint32(b[2:])
			sa, sb := binary.BigEndian.Uint64(a[6:]), binary.BigEndian.Uint64(b[6:])
			if !(da < db_ || (da == db_ && sa <= sb)) {
				t.Fatalf("klt_changelog violated: %x %x", a, b)
			}
		}
		if ca == 1 && cb == 1 && lt {
			ra, rb := binary.BigEndian.Uint64(a[2:]), binary.BigEndian.Uint64(b[2:])
			da, db_ := binary.BigEndian.Uint32(a[10:]), binary.BigEndian.Uint32(b[10:])
			ta, tb := binary.BigEndian.Uint64(a[14:]), binary.BigEndian.Uint64(b[14:])
			if !(ra < rb || (ra == rb && (da < db_ || (da == db_ && ta <= tb)))) {
				t.Fatalf("klt_json violated: %x %x", a, b)
			}
		}
	}
}

// intrinsics: db.View / db.Update run their function once; Update commits iff it returns nil and returns its error;
// a read transaction is a snapshot; a write transaction reads its own writes; KeyCopy / ValueCopy are stable copies
func TestZZConformanceTransactions(t *testing.T) {
	db, dir := zzOpen(t)
	defer os.RemoveAll(dir)
	defer db.Close()
	calls := 0
	boom := errors.New("boom")
	if err := db.Update(func(txn *badger.Txn) error { calls++; _ = txn.Set([]byte("a"), []byte("1")); return boom }); err != boom || calls != 1 {
		t.Fatalf("Update must run once and hand back the function's error: %v %d", err, calls)
	}
	_ = db.View(func(txn *badger.Txn) error {
		calls++
		if _, err := txn.Get([]byte("a")); err != badger.ErrKeyNotFound {
			t.Fatalf("a failed Update must not commit")
		}
		return nil
	})
	if calls != 2 {
		t.Fatalf("View must run its function once")
	}
	if err := db.Update(func(txn *badger.Txn) error {
		if err := txn.Set([]byte("a"), []byte("1")); err != nil {
			return err
		}
		it, err := txn.Get([]byte("a"))
		if err != nil {
			t.Fatalf("a write transaction must read its own writes")
		}
		return it.Value(func(v []byte) error {
			if string(v) != "1" {
				t.Fatalf("own write value")
			}
			return nil
		})
	}); err != nil {
		t.Fatal(err)
	}
	snap := db.NewTransaction(false)
	defer snap.Discard()
	_ = db.Update(func(txn *badger.Txn) error { return txn.Set([]byte("b"), []byte("2")) })
	if _, err := snap.Get([]byte("b")); err != badger.ErrKeyNotFound {
		t.Fatalf("a read transaction is a snapshot taken when it was created")
	}
	// KeyCopy / ValueCopy stay intact while the iterator moves on
	_ = db.Update(func(txn *badger.Txn) error {
		for i := 0; i < 500; i++ {
			k := make([]byte, 8)
			binary.BigEndian.PutUint64(k, uint64(i))
			_ = txn.Set(append([]byte("k"), k...), k)
		}
		return nil
	})
	_ = db.View(func(txn *badger.Txn) error {
		it := txn.NewIterator(badger.DefaultIteratorOptions)
		defer it.Close()
		var copies, keys [][]byte
		for it.Seek([]byte("k")); it.ValidForPrefix([]byte("k")); it.Next() {
			copies = append(copies, it.Item().KeyCopy(nil))
			v, _ := it.Item().ValueCopy(nil)
			keys = append(keys, v)
		}
		for i := range copies {
			if !bytes.Equal(copies[i][1:], keys[i]) {
				t.Fatalf("KeyCopy/ValueCopy %d changed after the iterator moved on", i)
			}
		}
		return nil
	})
}

// prelude: Sequence.Next is strictly increasing per key, across Release and across a reopen of the database
func TestZZConformanceSequences(t *testing.T) {
	db, dir := zzOpen(t)
	defer os.RemoveAll(dir)
	last := int64(-1)
	next := func(d *badger.DB, n int) {
		seq, err := d.GetSequence([]byte("seq"), 10)
		if err != nil {
			t.Fatal(err)
		}
		for i := 0; i < n; i++ {
			v, err := seq.Next()
			if err != nil {
				t.Fatal(err)
			}
			if int64(v) <= last {
				t.Fatalf("sequence went back: %d after %d", v, last)
			}
			last = int64(v)
		}
		_ = seq.Release()
	}
	next(db, 25)
	next(db, 3)
	db.Close()
	db2, err := badger.Open(badger.DefaultOptions(dir).WithLoggingLevel(badger.ERROR))
	if err != nil {
		t.Fatal(err)
	}
	defer db2.Close()
	next(db2, 12)
}

// prelude/json.ct, store.ct: decoding what was encoded gives the same value again (norm is idempotent); base64 and
// strconv codecs are inverse; big/little endian put/get at an offset
func TestZZConformanceCodecs(t *testing.T) {
	r := rand.New(rand.NewSource(zzSeed()))
	for i := 0; i < 200; i++ {
		e := NewEntity("ns1:e"+strconv.Itoa(i), uint64(r.Intn(1000)))
		e.IsDeleted = r.Intn(2) == 0
		e.Recorded = uint64(r.Int63())
		e.Properties["ns1:s"] = "v" + strconv.Itoa(r.Intn(10))
		e.Properties["ns1:n"] = float64(r.Intn(1000))
		e.Properties["ns1:l"] = []interface{}{"a", float64(r.Intn(5)), true}
		e.References["ns1:r"] = "ns1:t" + strconv.Itoa(r.Intn(5))
		e.References["ns1:rs"] = []interface{}{"ns1:x", "ns1:y"}
		b1, err := json.Marshal(e)
		if err != nil {
			t.Fatal(err)
		}
		d1 := &Entity{}
		if err := json.Unmarshal(b1, d1); err != nil {
			t.Fatal(err)
		}
		b2, _ := json.Marshal(d1)
		d2 := &Entity{}
		_ = json.Unmarshal(b2, d2)
		if !bytes.Equal(b1, b2) || !reflect.DeepEqual(d1, d2) {
			t.Fatalf("json round trip is not stable: %s vs %s", b1, b2)
		}
		if !IsEntityEqual(b1, b2, d1, d2) {
			t.Fatalf("a decoded entity differs from itself re-encoded and decoded")
		}
		n := r.Uint64()
		if m, err := strconv.ParseUint(strconv.FormatUint(n, 10), 10, 64); err != nil || m != n {
			t.Fatalf("ParseUint/FormatUint")
		}
		j := r.Intn(1 << 30)
		if m, err := strconv.Atoi(strconv.Itoa(j)); err != nil || m != j {
			t.Fatalf("Atoi/Itoa")
		}
		raw := make([]byte, 14)
		r.Read(raw)
		if dec, err := base64.StdEncoding.DecodeString(base64.StdEncoding.EncodeToString(raw)); err != nil || !bytes.Equal(dec, raw) {
			t.Fatalf("base64")
		}
		buf := make([]byte, 40)
		off := r.Intn(30)
		binary.BigEndian.PutUint64(buf[off:], n)
		if binary.BigEndian.Uint64(buf[off:]) != n {
			t.Fatalf("BE64")
		}
		binary.LittleEndian.PutUint64(buf[off:], n)
		if binary.LittleEndian.Uint64(buf[off:]) != n {
			t.Fatalf("LE64")
		}
	}
}
