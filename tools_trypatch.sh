#!/bin/bash
# usage: tools_trypatch.sh <Cxx> <patch.diff>  -- applies a patch to /repo, runs the check into a scratch output dir, reverts
set -u
P=$1; D=$2
cd /repo || exit 2
if ! git diff --quiet; then echo "repo dirty"; exit 2; fi
git apply "$D" || { echo "apply failed"; exit 2; }
OUT=$(mktemp -d /var/tmp/trypatch.XXXX)
VERIF_OUT=$OUT /verif/check "$P" 2>&1 | grep -E "VIOLATION|KNOWN-FINDING|undecided|FAIL|error" | head -8
echo "exit=${PIPESTATUS[0]}"
git checkout -- . ; git clean -fdq -- . 2>/dev/null
rm -rf "$OUT"
