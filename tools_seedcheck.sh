#!/bin/bash
# Applies every seeded breaking change (seeded/*/patch.diff) to a scratch worktree of /repo HEAD in turn, runs the check of
# the property it breaks against that worktree (evidence and replay files go to a scratch directory), records the outcome
# in the seed's meta.json. /repo itself is not touched. usage: tools_seedcheck.sh [seed-id]
export GOFLAGS=-mod=mod GOPROXY=off GOSUMDB=off GOTOOLCHAIN=local
wt=/var/tmp/seedcheck-wt-$$
out=/var/tmp/seedcheck-out-$$
mkdir -p "$out"
git -C /repo worktree add -q --detach "$wt" HEAD || exit 2
cp /verif/expected_obligations.json "$wt/.verif_expected.json"  # the baseline that belongs to this commit
trap 'git -C /repo worktree remove --force "$wt" >/dev/null 2>&1; rm -rf "$out"' EXIT
for d in /verif/seeded/*/; do
  id=$(basename "$d")
  [ -n "$1" ] && [ "$1" != "$id" ] && continue
  [ -f "$d/meta.json" ] || continue
  prop=$(python3 -c "import json;print(json.load(open('$d/meta.json'))['breaks_property'])")
  ( cd "$wt" && git checkout -q -- . )
  if ! ( cd "$wt" && git apply "$d/patch.diff" 2>/dev/null ); then echo "$id: patch no longer applies"; continue; fi
  res=$(cd /verif && VERIF_OUT="$out" ./bin/vcgen check "$prop" --repo="$wt" 2>&1 | grep -v KNOWN-FINDING | tail -14)
  python3 - "$d" "$res" <<'PY'
import json,sys,re
d,out=sys.argv[1],sys.argv[2]
m=json.load(open(d+'/meta.json'))
viol='VIOLATION property=' in out
m['detected_by_check']=viol
m['failed_obligations']=re.findall(r'failed: (.*)',out)
m['violation_line']=[l for l in out.split('\n') if l.startswith('VIOLATION')][:1]
json.dump(m,open(d+'/meta.json','w'),indent=1)
print(m['id'], 'DETECTED' if viol else 'MISSED', m['failed_obligations'][:3])
PY
done
