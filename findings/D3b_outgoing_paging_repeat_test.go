package server

import (
	"os"
	"testing"

	"github.com/DataDog/datadog-go/v5/statsd"
	"go.uber.org/zap"

	"github.com/mimiro-io/datahub/internal/conf"
)

func TestProbeD3b(t *testing.T) {
	dir, _ := os.MkdirTemp("", "d3b")
	defer os.RemoveAll(dir)
	e := &conf.Config{Logger: zap.NewNop().Sugar(), StoreLocation: dir}
	s := NewStore(e, &statsd.NoOpClient{})
	defer s.Close()
	dm := NewDsManager(e, s, NoOpBus())
	ds1, _ := dm.CreateDataset("d1", nil)
	ds2, _ := dm.CreateDataset("d2", nil)
	ds3, _ := dm.CreateDataset("d3", nil)
	mk := func(id string, refs map[string]interface{}) *Entity {
		en := NewEntity(id, 0)
		for k, v := range refs {
			en.References[k] = v
		}
		return en
	}
	// oldest: src -p-> r in d2 ; then src -p-> r2 in d1 (with r) ... order by time: d2 first (oldest), then d1 r2, then d1 r newest
	if err := ds2.StoreEntities([]*Entity{mk("ns0:src", map[string]interface{}{"ns0:p": "ns0:r"})}); err != nil {
		t.Fatal(err)
	}
	if err := ds1.StoreEntities([]*Entity{mk("ns0:src", map[string]interface{}{"ns0:p": "ns0:r2"})}); err != nil {
		t.Fatal(err)
	}
	if err := ds3.StoreEntities([]*Entity{mk("ns0:src", map[string]interface{}{"ns0:p": "ns0:r"})}); err != nil {
		t.Fatal(err)
	}
	from, err := s.ToRelatedFrom([]string{"ns0:src"}, "*", false, nil, 1<<62)
	if err != nil {
		t.Fatal(err)
	}
	var got []string
	for page := 0; page < 10 && len(from) > 0; page++ {
		res, err := s.GetManyRelatedEntitiesAtTime(from, 1, false)
		if err != nil {
			t.Fatal(err)
		}
		for _, r := range res.Relations {
			got = append(got, r.RelatedEntity.ID)
		}
		from = res.Cont
	}
	t.Logf("pages: %v", got)
	seen := map[string]bool{}
	for _, g := range got {
		if seen[g] {
			t.Fatalf("relation %s returned twice across pages: %v", g, got)
		}
		seen[g] = true
	}
	if len(got) != 2 {
		t.Fatalf("want 2 relations, got %v", got)
	}
}
