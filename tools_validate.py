#!/usr/bin/env python3
# validates MANIFEST.json and evidence files against the harness schemas
import json, sys, glob, jsonschema
ms = json.load(open('/root/.vp/MANIFEST.schema.json')); es = json.load(open('/root/.vp/EVIDENCE.schema.json'))
m = json.load(open('/verif/MANIFEST.json')); jsonschema.validate(m, ms)
ids = [json.loads(l)['id'] for l in open('/verif/properties.jsonl')]
claimed = [c['property_id'] for c in m['checks']]; na = [n['property_id'] for n in m.get('not_applicable', [])]
assert sorted(claimed + na) == sorted(ids), (sorted(claimed+na), 'every property must be claimed or not_applicable exactly once')
for f in glob.glob('/verif/evidence/*.json'):
    ev = json.load(open(f)); jsonschema.validate(ev, es)
    c = ev['coverage']
    print(f, ev['tier'], c.get('obligations'), c.get('discharged'), 'violations', ev.get('violations'))
print('manifest ok: claimed', claimed)
