package vc

import (
	"fmt"
	"go/token"
	"go/types"
	"sort"
	"strings"

	"golang.org/x/tools/go/ssa"
)

const maxInlineDepth = 6

func newState() *State {
	return &State{pc: True, heap: map[string]Term{}, cells: map[*Cell]Term{}, ghost: map[string]Term{}}
}

func (u *Unit) newFrame(fn *ssa.Function, prefix string, top bool) *Frame {
	f := &Frame{u: u, fn: fn, vals: map[ssa.Value]Val{}, top: top, prefix: prefix, rangeIt: map[ssa.Value]*rangeIter{}}
	f.loops = findLoops(fn)
	f.numberCalls()
	for _, li := range f.loops {
		if u.spec != nil {
			key := li.ord
			if prefix == "" {
				li.spec = u.spec.Loops[key]
			} else {
				li.spec = u.spec.closureLoop(prefix, key)
			}
		}
	}
	return f
}

// closureLoop looks up a loop spec given for an inlined closure: "loop $1:2" is stored under key -(hash).
func (s *UnitSpec) closureLoop(prefix string, ord int) *LoopSpec {
	if s.ClosureLoops == nil {
		return nil
	}
	return s.ClosureLoops[fmt.Sprintf("%s:%d", prefix, ord)]
}

// fresh value of a Go type with its well-formedness facts assumed.
func (u *Unit) freshOf(st *State, hint string, t types.Type) Term {
	v := u.defs.Fresh(hint, sortOf(t))
	u.assume(st, typeFacts(v, t))
	u.assume(st, u.ptrBoundIn(st, v, t))
	return v
}

// Allocation model: every state carries an allocation frontier `top`. A fresh object gets an address above the
// frontier, which then moves up to it; everything that exists (parameters, heap contents, results of callees) is at
// or below the frontier of the state in which it is obtained. Entry frontier = ALLOC_BASE.
func (u *Unit) topOf(st *State) Term {
	if st.top.S == "" {
		return u.allocBase
	}
	return st.top
}

// ptrBound: a reference value obtained in state st is not above st's allocation frontier.
func (u *Unit) ptrBoundIn(st *State, v Term, t types.Type) Term {
	if u.allocBase.S == "" {
		return True
	}
	top := u.topOf(st)
	switch t.Underlying().(type) {
	case *types.Pointer, *types.Map, *types.Chan:
		return App("<=", SBool, v, top)
	case *types.Slice:
		return App("<=", SBool, App("s_arr", SInt, v), top)
	}
	return True
}

// Hand-over sets (built-in ghosts of every unit, kept in st.ghost so that joins and loop cuts treat them like ghosts):
//   #retained  arrays of the byte slices handed to a callee that keeps them by reference (`retains p`: badger's Txn.Set
//              keeps key and value until the transaction ends); writing such an array afterwards is an obligation
//              (retained:…), because the write changes what the callee will store
//   #consumed  references handed to a callee that may receive each reference once only (`consumes p`: the target of
//              json.Unmarshal - decoding into a used object merges instead of replacing); a second hand-over is an
//              obligation (once@…)
// Both start empty; a loop that hands something over forgets them except that every member exists (is not above the
// allocation frontier of the loop head), so what an iteration allocates is known not to be a member.
const ghRetained, ghConsumed = "#retained", "#consumed"

var emptyIntSet = Term{"((as const (Array Int Bool)) false)", ArraySort(SInt, SBool)}

func (u *Unit) handoffGet(st *State, name string) Term {
	if _, ok := u.gens["ghost0:"+name]; !ok {
		u.gens["ghost0:"+name] = emptyIntSet
	}
	if t, ok := st.ghost[name]; ok {
		return t
	}
	return emptyIntSet
}

func (u *Unit) handoffAdd(st *State, name string, addr Term) {
	st.ghost[name] = u.defs.Define("ho_"+name[1:], Store(u.handoffGet(st, name), addr, True))
}

// retainedWrite: an element of the byte array arr is about to be written.
func (u *Unit) retainedWrite(st *State, arr Term) {
	t, ok := st.ghost[ghRetained]
	if !ok || st.dead {
		return
	}
	u.retainedCtr++
	u.addObl(st, "retained", fmt.Sprintf("a-buffer-handed-to-a-transaction-is-not-written-before-the-transaction-ends:#%d", u.retainedCtr), Not(Select(t, arr)), nil)
}

func (u *Unit) newAddr(st *State, hint string) Term {
	u.allocCtr++
	a := u.defs.Fresh(hint, SInt)
	u.assume(st, App(">", SBool, a, u.topOf(st)))
	st.top = a
	return a
}

// ---------------------------------------------------------------------------
// value access

func (f *Frame) val(v ssa.Value, st *State) Val {
	if x, ok := f.vals[v]; ok {
		return x
	}
	switch c := v.(type) {
	case *ssa.Const:
		return f.constVal(c)
	case *ssa.Function:
		return Val{Fn: c, T: IntLit(int64(1000000 + f.u.eng.tids.id(types.NewPointer(types.Typ[types.Int])) + len(c.Name()))), Ty: c.Type()}
	case *ssa.Global:
		return Val{LV: &LValue{Kind: "global", Class: globalClass(c), Sort: sortOf(c.Type().(*types.Pointer).Elem()), Ty: c.Type().(*types.Pointer).Elem()}, T: IntLit(0), Ty: c.Type()}
	case *ssa.Builtin:
		return Val{Ty: c.Type()}
	}
	// not yet defined (e.g. use before def through abstraction) -> fresh
	t := f.u.freshOf(st, "undef_"+v.Name(), v.Type())
	f.u.abstractf("%s: value %s used before definition", f.u.name, v.Name())
	x := Val{T: t, Ty: v.Type()}
	f.vals[v] = x
	return x
}

func (f *Frame) constVal(c *ssa.Const) Val {
	t := c.Type()
	if c.Value == nil {
		return Val{T: zeroOf(sortOf(t)), Ty: t}
	}
	return Val{T: constTerm(c.Value, t), Ty: t}
}

// load reads through a pointer-valued Val.
func (f *Frame) load(p Val, elemTy types.Type, st *State) Val {
	u := f.u
	lv := p.LV
	if lv == nil {
		lv = &LValue{Kind: "ptr", Class: cellClass(elemTy), Sort: sortOf(elemTy), Base: p.T, Ty: elemTy}
	}
	return u.loadLV(lv, elemTy, st)
}

func (u *Unit) loadLV(lv *LValue, elemTy types.Type, st *State) Val {
	switch lv.Kind {
	case "cell":
		t, ok := st.cells[lv.Cell]
		if !ok {
			t = zeroOf(lv.Cell.Sort)
		}
		return Val{T: t, Ty: elemTy}
	case "global":
		return Val{T: u.heapGet(st, lv.Class, lv.Sort), Ty: elemTy}
	case "field":
		if s, ok := elemTy.Underlying().(*types.Struct); ok {
			// loading a whole struct value: fresh value id with field facts
			return u.loadStructValue(lv.Base, lv.Owner, lv.Path, elemTy, s, st)
		}
		arr := u.heapGet(st, lv.Class, ArraySort(SInt, lv.Sort))
		return Val{T: Select(arr, lv.Base), Ty: elemTy}
	case "ptr":
		if s, ok := elemTy.Underlying().(*types.Struct); ok {
			return u.loadStructValue(lv.Base, elemTy, nil, elemTy, s, st)
		}
		arr := u.heapGet(st, lv.Class, ArraySort(SInt, lv.Sort))
		return Val{T: Select(arr, lv.Base), Ty: elemTy}
	case "elem":
		arr := u.heapGet(st, lv.Class, ArraySort(SInt, ArraySort(SInt, lv.Sort)))
		return Val{T: Select(Select(arr, lv.Base), lv.Index), Ty: elemTy}
	}
	return Val{T: u.freshOf(st, "load", elemTy), Ty: elemTy}
}

// structFields enumerates the scalar leaf fields of a struct (flattening nested value structs).
func structFields(s *types.Struct, prefix []string, fn func(path []string, ty types.Type)) {
	for i := 0; i < s.NumFields(); i++ {
		fl := s.Field(i)
		p := append(append([]string{}, prefix...), fl.Name())
		if ns, ok := fl.Type().Underlying().(*types.Struct); ok {
			structFields(ns, p, fn)
		} else {
			fn(p, fl.Type())
		}
	}
}

func (u *Unit) loadStructValue(ptr Term, owner types.Type, prefix []string, vty types.Type, s *types.Struct, st *State) Val {
	v := u.defs.Fresh("sv_"+structKey(vty), SInt)
	var facts []Term
	structFields(s, nil, func(path []string, ty types.Type) {
		full := append(append([]string{}, prefix...), path...)
		class := fieldClass(owner, full)
		arr := u.heapGet(st, class, ArraySort(SInt, sortOf(ty)))
		fn := u.valueFieldFun(vty, path, ty)
		facts = append(facts, Eq(App(fn, sortOf(ty), v), Select(arr, ptr)))
	})
	u.assume(st, And(facts...))
	return Val{T: v, Ty: vty}
}

func (u *Unit) storeStructValue(ptr Term, owner types.Type, prefix []string, vty types.Type, s *types.Struct, v Term, st *State) {
	structFields(s, nil, func(path []string, ty types.Type) {
		full := append(append([]string{}, prefix...), path...)
		class := fieldClass(owner, full)
		asort := ArraySort(SInt, sortOf(ty))
		arr := u.heapGet(st, class, asort)
		fn := u.valueFieldFun(vty, path, ty)
		u.heapSet(st, class, u.defs.Define("H_"+class, Store(arr, ptr, App(fn, sortOf(ty), v))))
	})
}

func (f *Frame) store(p Val, v Val, elemTy types.Type, st *State) {
	u := f.u
	lv := p.LV
	if lv == nil {
		lv = &LValue{Kind: "ptr", Class: cellClass(elemTy), Sort: sortOf(elemTy), Base: p.T, Ty: elemTy}
	}
	u.storeLV(lv, v, elemTy, st)
}

func (u *Unit) storeLV(lv *LValue, v Val, elemTy types.Type, st *State) {
	val := v.T
	if val.S == "" {
		val = u.freshOf(st, "stv", elemTy)
	}
	switch lv.Kind {
	case "cell":
		st.cells[lv.Cell] = val
		if v.Fn != nil {
			if u.cellFns == nil {
				u.cellFns = map[*Cell]Val{}
			}
			u.cellFns[lv.Cell] = v
		}
	case "global":
		u.heapSet(st, lv.Class, val)
	case "field":
		if s, ok := elemTy.Underlying().(*types.Struct); ok {
			u.storeStructValue(lv.Base, lv.Owner, lv.Path, elemTy, s, val, st)
			return
		}
		asort := ArraySort(SInt, lv.Sort)
		arr := u.heapGet(st, lv.Class, asort)
		u.heapSet(st, lv.Class, u.defs.Define("H_"+lv.Class, Store(arr, lv.Base, val)))
	case "ptr":
		if s, ok := elemTy.Underlying().(*types.Struct); ok {
			u.storeStructValue(lv.Base, elemTy, nil, elemTy, s, val, st)
			return
		}
		asort := ArraySort(SInt, lv.Sort)
		arr := u.heapGet(st, lv.Class, asort)
		u.heapSet(st, lv.Class, u.defs.Define("H_"+lv.Class, Store(arr, lv.Base, val)))
	case "elem":
		if lv.Class == elemClass(types.Typ[types.Uint8]) {
			u.retainedWrite(st, lv.Base)
		}
		asort := ArraySort(SInt, ArraySort(SInt, lv.Sort))
		arr := u.heapGet(st, lv.Class, asort)
		inner := Select(arr, lv.Base)
		u.heapSet(st, lv.Class, u.defs.Define("H_"+lv.Class, Store(arr, lv.Base, Store(inner, lv.Index, val))))
	}
}

// ---------------------------------------------------------------------------
// Running a function

type edgeIn struct {
	from *ssa.BasicBlock
	st   *State
}

// run executes fn symbolically from state st; returns the merged return state and values.
func (f *Frame) run(st *State) (*State, []Val) {
	fn := f.fn
	u := f.u
	if len(fn.Blocks) == 0 {
		u.errorf("function %s has no body", fn.String())
		return st, nil
	}
	isBack := func(from, to *ssa.BasicBlock) bool { return to.Dominates(from) }
	order := rpo(fn, isBack)
	in := map[*ssa.BasicBlock][]edgeIn{}
	in[fn.Blocks[0]] = []edgeIn{{nil, st}}
	for _, b := range order {
		edges := in[b]
		li := f.loops[b]
		var cur *State
		if len(edges) == 0 {
			continue // unreachable
		}
		// merge incoming forward edges
		var sts []*State
		for _, e := range edges {
			sts = append(sts, e.st)
		}
		cur = u.mergeStates(sts)
		if cur.dead {
			continue
		}
		// phis (entry values)
		phiVals := map[*ssa.Phi]Val{}
		for _, ins := range b.Instrs {
			p, ok := ins.(*ssa.Phi)
			if !ok {
				break
			}
			var acc Val
			first := true
			for i := len(edges) - 1; i >= 0; i-- {
				e := edges[i]
				if e.st == nil || e.st.dead {
					continue
				}
				idx := predIndex(b, e.from)
				if idx < 0 {
					continue
				}
				ev := f.val(p.Edges[idx], cur)
				if first {
					acc = ev
					first = false
				} else {
					nv := Val{T: Ite(e.st.pc, ev.T, acc.T), Ty: p.Type()}
					if ev.LV != nil && acc.LV != nil && ev.LV == acc.LV {
						nv.LV = ev.LV
					}
					if ev.Fn != nil && acc.Fn == ev.Fn && len(acc.Alts) == 0 {
						nv.Fn, nv.Env = ev.Fn, ev.Env
					} else if len(ev.fnAlts()) > 0 && len(acc.fnAlts()) > 0 {
						// function-valued phi: keep every alternative under its edge condition
						for _, a := range ev.fnAlts() {
							nv.Alts = append(nv.Alts, FnAlt{Cond: And(e.st.pc, a.Cond), Fn: a.Fn, Env: a.Env})
						}
						for _, a := range acc.fnAlts() {
							nv.Alts = append(nv.Alts, FnAlt{Cond: And(Not(e.st.pc), a.Cond), Fn: a.Fn, Env: a.Env})
						}
					}
					acc = nv
				}
			}
			if acc.T.S != "" {
				acc.T = u.defs.Define("phi_"+p.Name(), acc.T)
			}
			acc.Ty = p.Type()
			phiVals[p] = acc
		}
		for p, v := range phiVals {
			f.vals[p] = v
		}
		if li != nil {
			cur = f.enterLoop(li, cur, phiVals)
		}
		f.execBlock(b, cur, in)
	}
	// merge returns
	if len(f.rets) == 0 {
		dead := newState()
		dead.pc = False
		dead.dead = true
		return dead, nil
	}
	var sts []*State
	for _, r := range f.rets {
		sts = append(sts, r.st)
	}
	merged := u.mergeStates(sts)
	nres := len(f.rets[0].vals)
	res := make([]Val, nres)
	for k := 0; k < nres; k++ {
		var acc Val
		for i := len(f.rets) - 1; i >= 0; i-- {
			r := f.rets[i]
			if i == len(f.rets)-1 {
				acc = r.vals[k]
			} else {
				nv := Val{T: Ite(r.st.pc, r.vals[k].T, acc.T), Ty: r.vals[k].Ty}
				acc = nv
			}
		}
		if acc.T.S != "" {
			acc.T = u.defs.Define("ret", acc.T)
		}
		res[k] = acc
	}
	return merged, res
}

func predIndex(b, from *ssa.BasicBlock) int {
	for i, p := range b.Preds {
		if p == from {
			return i
		}
	}
	return -1
}

// loopEnv builds a spec environment for evaluating clauses at the loop header.
func (f *Frame) pointEnv(st *State, b *ssa.BasicBlock, idx int, extra map[string]TV) *Env {
	u := f.u
	var pkg *types.Package
	if f.fn.Pkg != nil {
		pkg = f.fn.Pkg.Pkg
	} else if u.fn.Pkg != nil {
		pkg = u.fn.Pkg.Pkg
	}
	e := &Env{u: u, st: st, old: u.entry, bound: map[string]boundVar{}, pkg: pkg, qctr: &u.qctr, fn: f.fn}
	e.lookup = func(e *Env, name string) (TV, bool) {
		// `var_<name>`: the program variable <name>, even where a contract word (result, ret0, ...) has that name
		if strings.HasPrefix(name, "var_") && len(name) > 4 {
			name = name[4:]
		} else if extra != nil {
			if tv, ok := extra[name]; ok {
				return tv, true
			}
		}
		entryName := ""
		if strings.HasSuffix(name, "0") && len(name) > 1 {
			entryName = name[:len(name)-1]
		}
		v, isAddr, ok := f.lookupName(name, b, idx)
		if !ok && f.spliced && f.parent != nil {
			// a name the extracted helper does not know: the caller's variable, at the call site
			pe := f.parent.pointEnv(e.st, f.parentBlock, f.parentIdx, nil)
			pe.old, pe.cur = e.old, e.cur
			if tv, found := pe.lookup(pe, name); found {
				return tv, true
			}
		}

		if !ok && entryName != "" {
			for _, p := range f.fn.Params {
				if p.Name() == entryName {
					v, isAddr, ok = p, false, true
				}
			}
		}
		if !ok {
			// globals of the package
			if f.fn.Pkg != nil {
				if g, ok := f.fn.Pkg.Members[name].(*ssa.Global); ok {
					gv := f.val(g, e.st)
					lv := u.loadLV(gv.LV, gv.LV.Ty, e.st)
					return TV{T: lv.T, Ty: gv.LV.Ty}, true
				}
			}
			return TV{}, false
		}
		val := f.val(v, e.st)
		if isAddr && val.LV != nil && val.LV.Kind == "cell" {
			if _, live := e.st.cells[val.LV.Cell]; !live {
				// the state predates the cell (old() of a captured parameter): the parameter's entry value
				for _, p := range f.fn.Params {
					if p.Name() == name {
						return TV{T: f.val(p, e.st).T, Ty: p.Type()}, true
					}
				}
				// a local declared after entry: old() only rewinds the heap, the variable keeps its current value
				if e.cur != nil {
					if t, ok := e.cur.cells[val.LV.Cell]; ok {
						return TV{T: t, Ty: val.LV.Cell.Ty}, true
					}
				}
			}
		}
		if isAddr {
			pt, _ := v.Type().Underlying().(*types.Pointer)
			if pt == nil {
				return TV{}, false
			}
			if _, isStruct := pt.Elem().Underlying().(*types.Struct); isStruct && val.LV == nil {
				// address-taken struct local: behave like a pointer to it
				return TV{T: val.T, Ty: v.Type()}, true
			}
			lv := f.load(val, pt.Elem(), e.st)
			return TV{T: lv.T, Ty: pt.Elem()}, true
		}
		return TV{T: val.T, Ty: v.Type()}, true
	}
	return e
}

// enterLoop: check invariants on entry, havoc, assume invariants.
func (f *Frame) enterLoop(li *loopInfo, cur *State, phiEntry map[*ssa.Phi]Val) *State {
	u := f.u
	b := li.head
	tag := fmt.Sprintf("loop%s%d", f.prefix, li.ord)
	if li.spec == nil {
		u.abstractf("%s: %s has no invariant (loop-modified state havoced)", u.name, tag)
	}
	// range-over-map visited sets owned by this loop: initialise
	f.initRangeGhost(li, cur)
	if li.spec != nil {
		env := f.pointEnv(cur, b, -1, f.loopExtras(li, cur))
		for i, c := range li.spec.Invariants {
			t, ok := env.Bool(c.E, c.Line)
			if !ok {
				continue
			}
			lab := c.Label
			if lab == "" {
				lab = fmt.Sprintf("%d", i+1)
			}
			u.addObl(cur, tag+"/inv-init", lab, t, c)
		}
	}
	// havoc
	st := cur.clone()
	mods := f.loopMods(li)
	if mods.all {
		// preserved: items preserved by every havoc-all callee in the loop
		var keep []matcher
		if len(mods.excepts) > 0 {
			for k, it := range mods.excepts[0] {
				_ = k
				inAll := true
				for _, other := range mods.excepts[1:] {
					found := false
					for _, o := range other {
						if o == it {
							found = true
						}
					}
					if !found {
						inAll = false
					}
				}
				if inAll {
					keep = append(keep, modMatchers(it, mods.exceptPkg[0])...)
				}
			}
		}
		// a preserved class that the loop body writes itself is still modified
		u.eventWhy = "a loop"
		u.havocAllExcept(st, keep)
		var own []matcher
		for _, c := range sortedKeys(mods.classes) {
			own = append(own, matcher{exact: c})
		}
		own = append(own, mods.pats...)
		u.eventWhy = "a loop"
		u.havocOnly(st, own)
		if ev, ok := u.events[st.gen]; ok && len(own) > 0 {
			ev.localOnly = mods.localOnlyCells(u.fn)
			u.events[st.gen] = ev
		}
	} else {
		var own []matcher
		for _, c := range sortedKeys(mods.classes) {
			own = append(own, matcher{exact: c})
		}
		own = append(own, mods.pats...)
		u.eventWhy = "a loop"
		u.havocOnly(st, own)
		if ev, ok := u.events[st.gen]; ok && len(own) > 0 {
			ev.localOnly = mods.localOnlyCells(u.fn)
			u.events[st.gen] = ev
		}
	}
	for c := range st.cells {
		if mods.allocs[c.Alloc] || mods.allCells {
			st.cells[c] = u.defs.Fresh("lc_"+c.Name, c.Sort)
			u.assume(st, typeFacts(st.cells[c], c.Ty))
		}
	}
	for g := range mods.ghosts {
		if _, has := st.ghost[g]; !has {
			if gt, ok := u.eng.GlobalGhosts[g]; ok {
				env := f.pointEnv(st, b, -1, nil)
				srt, _ := env.resolveType(gt)
				st.ghost[g] = u.ghostInit(g, srt)
			}
		}
	}
	for g := range st.ghost {
		if mods.ghosts[g] || mods.allGhosts {
			st.ghost[g] = u.defs.Fresh("lg_"+g, st.ghost[g].Sort)
		}
	}
	// earlier iterations may have allocated: the frontier only moves up
	{
		nt := u.defs.Fresh("top_loop", SInt)
		u.assume(st, App(">=", SBool, nt, u.topOf(cur)))
		st.top = nt
	}
	for _, g := range []string{ghRetained, ghConsumed} {
		if !mods.ghosts[g] && !mods.allGhosts {
			continue
		}
		ng := u.defs.Fresh("lg_"+g[1:], ArraySort(SInt, SBool))
		u.handoffGet(st, g)
		st.ghost[g] = ng
		u.qctr++
		qa := Term{fmt.Sprintf("q%d_a", u.qctr), SInt}
		u.assume(st, Term{fmt.Sprintf("(forall ((%s Int)) (! (=> (select %s %s) (<= %s %s)) :pattern ((select %s %s))))", qa.S, ng.S, qa.S, qa.S, st.top.S, ng.S, qa.S), SBool})
	}
	li.phiHead = map[*ssa.Phi]Val{}
	for p := range phiEntry {
		nv := Val{T: u.freshOf(st, "lphi_"+p.Comment+"_"+p.Name(), p.Type()), Ty: p.Type()}
		f.vals[p] = nv
		li.phiHead[p] = nv
	}
	if li.spec != nil {
		env := f.pointEnv(st, b, -1, f.loopExtras(li, st))
		var invs []Term
		for _, c := range li.spec.Invariants {
			t, ok := env.Bool(c.E, c.Line)
			if ok {
				invs = append(invs, t)
			}
		}
		u.assume(st, And(invs...))
		if li.spec.Decreases != nil {
			tv, ok := env.Term(li.spec.Decreases.E, li.spec.Decreases.Line)
			if ok {
				li.measure = u.defs.Define("measure", tv.T)
				li.hasMeasure = true
			}
		}
	}
	li.headState = st
	return st
}

// loopExtras exposes loop-specific names: $i (range index of this loop).
func (f *Frame) loopExtras(li *loopInfo, st *State) map[string]TV {
	ex := map[string]TV{}
	for _, ins := range li.head.Instrs {
		p, ok := ins.(*ssa.Phi)
		if !ok {
			break
		}
		if p.Comment == "rangeindex" {
			ex["$i"] = TV{T: f.vals[p].T, Ty: p.Type()}
		}
	}
	// enclosing range loops: $i<ordinal> is the range index of loop <ordinal> of this function
	for _, o := range f.loops {
		if o == li || !o.body[li.head] {
			continue
		}
		for _, ins := range o.head.Instrs {
			p, ok := ins.(*ssa.Phi)
			if !ok {
				break
			}
			if v, has := f.vals[p]; has && p.Comment == "rangeindex" {
				ex[fmt.Sprintf("$i%d", o.ord)] = TV{T: v.T, Ty: p.Type()}
			}
		}
	}
	return ex
}

// backEdge: check invariant preservation and the decreases clause.
func (f *Frame) backEdge(li *loopInfo, from *ssa.BasicBlock, st *State) {
	u := f.u
	tag := fmt.Sprintf("loop%s%d", f.prefix, li.ord)
	if li.spec == nil {
		return
	}
	// bind phis to their back-edge values
	saved := map[*ssa.Phi]Val{}
	idx := predIndex(li.head, from)
	for p, hv := range li.phiHead {
		saved[p] = hv
		f.vals[p] = f.val(p.Edges[idx], st)
	}
	env := f.pointEnv(st, li.head, -1, f.loopExtras(li, st))
	for i, c := range li.spec.Invariants {
		t, ok := env.Bool(c.E, c.Line)
		if !ok {
			continue
		}
		lab := c.Label
		if lab == "" {
			lab = fmt.Sprintf("%d", i+1)
		}
		u.addObl(st, tag+"/inv-pres", lab, t, c)
	}
	if li.hasMeasure {
		tv, ok := env.Term(li.spec.Decreases.E, li.spec.Decreases.Line)
		if ok {
			goal := And(App("<=", SBool, IntLit(0), li.measure), App("<", SBool, tv.T, li.measure))
			u.addObl(st, tag+"/term", "decreases", goal, li.spec.Decreases)
		}
	}
	for p, hv := range saved {
		f.vals[p] = hv
	}
}

// ---------------------------------------------------------------------------

func (f *Frame) execBlock(b *ssa.BasicBlock, st *State, in map[*ssa.BasicBlock][]edgeIn) {
	u := f.u
	for idx, ins := range b.Instrs {
		if st.dead {
			return
		}
		switch ins := ins.(type) {
		case *ssa.Phi:
			// done
		case *ssa.DebugRef:
		case *ssa.If:
			c := f.val(ins.Cond, st).T
			c = u.defs.Define("cond", c)
			tst := st.clone()
			u.assume(tst, c)
			fst := st.clone()
			u.assume(fst, Not(c))
			f.flow(b, b.Succs[0], tst, in)
			f.flow(b, b.Succs[1], fst, in)
			return
		case *ssa.Jump:
			f.flow(b, b.Succs[0], st, in)
			return
		case *ssa.Return:
			var vals []Val
			for _, r := range ins.Results {
				vals = append(vals, f.val(r, st))
			}
			// the values about to be returned are visible at "return" anchors as result / ret<k>
			if !f.spliced {
				f.pendingRet = vals
				f.atPoint("return", st, b, idx)
				f.pendingRet = nil
			}
			rst := st
			f.runDefers(rst)
			if f.top {
				// reachability probe (informational): a return that cannot be reached under the assumed invariants
				// usually means a contradictory invariant
				vo := u.addObl(rst, "reach", fmt.Sprintf("return#%d", len(f.rets)+1), False, nil)
				vo.ExpectFail = true
				vo.Info = true
				u.checkReturn(f, rst, vals)
			}
			f.rets = append(f.rets, retState{rst, vals})
			return
		case *ssa.Panic:
			if u.safe["panic"] {
				u.addObl(st, "safe:panic", shortLabel(f, ins), False, nil)
			}
			st.dead = true
			return
		case *ssa.RunDefers:
			// executed at Return (static defers); nothing here
		default:
			f.execInstr(ins, st, b, idx)
		}
	}
}

func shortLabel(f *Frame, ins ssa.Instruction) string {
	if n, ok := f.callOrd[ins]; ok {
		return strings.TrimPrefix(n, "call ")
	}
	if v, ok := ins.(ssa.Value); ok {
		return v.Name()
	}
	return "?"
}

func (f *Frame) flow(from, to *ssa.BasicBlock, st *State, in map[*ssa.BasicBlock][]edgeIn) {
	if to.Dominates(from) { // back edge
		if li := f.loops[to]; li != nil {
			f.backEdge(li, from, st)
		}
		return
	}
	// "loop N exit" anchors: the edge on which the loop header leaves the loop (condition false / range exhausted;
	// a break leaves from inside the body and does not pass here)
	if (f.top || f.prefix != "") && !f.spliced {
		for _, li := range f.loops {
			if li.head == from && !li.body[to] {
				f.atPoint(fmt.Sprintf("loop %d exit", li.ord), st, from, len(from.Instrs)-1)
			}
		}
	}
	in[to] = append(in[to], edgeIn{from, st})
}

// siteOrd numbers instruction sites of one kind in source order for stable labels.
func (f *Frame) siteLabel(kind string, ins ssa.Instruction) string {
	if f.siteOrd == nil {
		f.siteOrd = map[string]map[ssa.Instruction]int{}
	}
	m := f.siteOrd[kind]
	if m == nil {
		m = map[ssa.Instruction]int{}
		f.siteOrd[kind] = m
		n := 0
		for _, b := range f.fn.Blocks {
			for _, i := range b.Instrs {
				match := false
				switch x := i.(type) {
				case *ssa.TypeAssert:
					match = kind == "typeassert" && !x.CommaOk
				case *ssa.IndexAddr, *ssa.Index:
					match = kind == "index"
				case *ssa.Slice:
					match = kind == "slice"
				case *ssa.MakeSlice:
					match = kind == "make"
				case *ssa.MapUpdate:
					match = kind == "nilmap"
				case *ssa.BinOp:
					match = kind == "div" && (x.Op == token.QUO || x.Op == token.REM)
				case *ssa.Convert:
					match = kind == "conv"
				}
				if match {
					n++
					m[i] = n
				}
			}
		}
	}
	return fmt.Sprintf("%s#%d", f.prefix, m[ins])
}

func sortedCells(m map[*Cell]Term) []*Cell {
	var cs []*Cell
	for c := range m {
		cs = append(cs, c)
	}
	sort.Slice(cs, func(i, j int) bool { return cs[i].ID < cs[j].ID })
	return cs
}
