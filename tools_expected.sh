#!/bin/bash
# refreshes expected_obligations.json / locals_baseline.json for the given properties (default all) from /repo's working tree
cd /verif
props="${@:-C01 C02 C03 C04 C05 C06 C07 C08 C09 C10 C11 C12 C13 C14 C15 C16 C17 C18 C19 C20}"
for p in $props; do ./bin/vcgen expected $p 2>&1 | grep -E "^wrote|VIOLATION|failed" ; done
