package vc

import (
	"fmt"
	"go/types"
	"os"
	"path/filepath"
	"runtime"
	"strings"

	"golang.org/x/tools/go/ssa"
)

// LValue describes a statically resolved memory location.
type LValue struct {
	Kind  string // field, elem, cell, ptr, global, mapelem
	Class string
	Sort  Sort       // sort of the stored value
	Base  Term       // field: struct pointer; ptr: address; elem: array id
	Index Term       // elem: absolute index
	Cell  *Cell      // cell
	Ty    types.Type // type of the stored value
	// for value-struct sub-objects: Path prefix and owning struct
	Owner types.Type
	Path  []string
}

// Cell is a promoted (non-escaping or closure-captured) local variable.
type Cell struct {
	Alloc *ssa.Alloc
	Name  string
	Sort  Sort
	Ty    types.Type
	ID    int
}

// Val is the engine-level value of an SSA value.
type Val struct {
	T   Term
	LV  *LValue
	Fn  *ssa.Function
	Env []Val
	Tup []Val
	Ty  types.Type
	// Conc/ConcVal: for interface values built by MakeInterface in this unit: the concrete type and value (devirtualisation)
	Conc    types.Type
	ConcVal *Val
	// Alts: the value is one of several closures, selected by path conditions (phi of function values)
	Alts []FnAlt
}

// FnAlt is one alternative of a function-valued phi.
type FnAlt struct {
	Cond Term
	Fn   *ssa.Function
	Env  []Val
}

// fnAlts lists the closures a value may denote (a single unconditional one for plain closures).
func (v Val) fnAlts() []FnAlt {
	if len(v.Alts) > 0 {
		return v.Alts
	}
	if v.Fn != nil {
		return []FnAlt{{Cond: True, Fn: v.Fn, Env: v.Env}}
	}
	return nil
}

type deferEntry struct {
	guard Term
	call  *ssa.Defer
	frame *Frame
}

// State is a symbolic program state.
type State struct {
	pc     Term
	gen    int
	heap   map[string]Term
	cells  map[*Cell]Term
	ghost  map[string]Term
	defers []deferEntry
	dead   bool
	top    Term // allocation frontier
}

func (s *State) clone() *State {
	n := &State{pc: s.pc, gen: s.gen, heap: make(map[string]Term, len(s.heap)), cells: make(map[*Cell]Term, len(s.cells)), ghost: make(map[string]Term, len(s.ghost))}
	for k, v := range s.heap {
		n.heap[k] = v
	}
	for k, v := range s.cells {
		n.cells[k] = v
	}
	for k, v := range s.ghost {
		n.ghost[k] = v
	}
	n.defers = append([]deferEntry(nil), s.defers...)
	n.dead = s.dead
	n.top = s.top
	return n
}

// assume strengthens the path condition.
func (u *Unit) assume(st *State, t Term) {
	if t.S == "true" {
		return
	}
	st.pc = u.defs.Define("pc", And(st.pc, t))
}

// matcher selects heap classes by exact name or by prefix.
type matcher struct {
	exact  string
	prefix string
}

func (m matcher) match(c string) bool {
	if m.exact != "" {
		return c == m.exact
	}
	return strings.HasPrefix(c, m.prefix)
}

func matchAny(ms []matcher, c string) bool {
	for _, m := range ms {
		if m.match(c) {
			return true
		}
	}
	return false
}

// havocEvent: at this point either every class except pats (all) or exactly the classes in pats was forgotten.
type havocEvent struct {
	prev int
	all  bool
	pats []matcher
	// merge events join several generations (state merge at a control-flow join)
	merge bool
	preds []int
	pcs   []Term
	// exact classes in pats that are named only for writes to variables of the running invocation (never a pre-existing object)
	localOnly map[string]bool
	why   string // what caused the event (callee name, loop), for diagnostics only
}

// heapGet returns the current array of a heap class.
func (u *Unit) heapGet(st *State, class string, sort Sort) Term {
	if t, ok := st.heap[class]; ok {
		return t
	}
	return u.resolveGen(st.gen, class, sort)
}

// resolveGen finds the value a class has in generation g when the state holds no explicit entry for it.
func (u *Unit) resolveGen(g int, class string, sort Sort) Term {
	for g != 0 {
		e := u.events[g]
		if e.merge {
			key := class + "@m" + itoa(g)
			if t, ok := u.gens[key]; ok {
				return t
			}
			var acc Term
			same := true
			for i := len(e.preds) - 1; i >= 0; i-- {
				t := u.resolveGen(e.preds[i], class, sort)
				if i == len(e.preds)-1 {
					acc = t
				} else if t.S != acc.S {
					same = false
					acc = Ite(e.pcs[i], t, acc)
				}
			}
			if !same {
				acc = u.defs.Define("Hm_"+class, acc)
			}
			u.gens[key] = acc
			return acc
		}
		havoced := e.all != matchAny(e.pats, class)
		if havoced {
			break
		}
		g = e.prev
	}
	return u.genConst(g, class, sort)
}

func (u *Unit) genConst(gen int, class string, sort Sort) Term {
	key := class
	if gen > 0 {
		key = class + "@" + itoa(gen)
	}
	if t, ok := u.gens[key]; ok {
		return t
	}
	if _, ok := u.classSort[class]; !ok {
		u.classSort[class] = sort
	}
	t := u.defs.Fresh("H"+itoa(gen)+"_"+class, sort)
	u.gens[key] = t
	return t
}

func itoa(i int) string {
	if i == 0 {
		return "0"
	}
	neg := i < 0
	if neg {
		i = -i
	}
	var b [20]byte
	p := len(b)
	for i > 0 {
		p--
		b[p] = byte('0' + i%10)
		i /= 10
	}
	if neg {
		p--
		b[p] = '-'
	}
	return string(b[p:])
}

func (u *Unit) heapSet(st *State, class string, t Term) {
	if _, ok := u.classSort[class]; !ok {
		u.classSort[class] = t.Sort
	}
	st.heap[class] = t
}

func (u *Unit) newEvent(st *State, all bool, pats []matcher) {
	if u.events == nil {
		u.events = map[int]havocEvent{}
	}
	u.genCtr++
	if u.eventWhy == "" && os.Getenv("VERIF_DEBUG") != "" {
		_, file, line, _ := runtime.Caller(2)
		u.eventWhy = fmt.Sprintf("engine %s:%d", filepath.Base(file), line)
	}
	u.events[u.genCtr] = havocEvent{prev: st.gen, all: all, pats: pats, why: u.eventWhy}
	u.eventWhy = ""
	st.gen = u.genCtr
	for c := range st.heap {
		if all != matchAny(pats, c) {
			delete(st.heap, c)
		}
	}
}

// havocAll forgets the whole heap (not promoted cells, not ghosts).
func (u *Unit) havocAll(st *State) { u.newEvent(st, true, nil) }

// havocAllExcept forgets every class not selected by keep.
func (u *Unit) havocAllExcept(st *State, keep []matcher) { u.newEvent(st, true, keep) }

// havocOnly forgets the selected classes (known or not yet known).
func (u *Unit) havocOnly(st *State, pats []matcher) {
	if len(pats) == 0 {
		return
	}
	u.newEvent(st, false, pats)
}

func (u *Unit) havocClass(st *State, class string) {
	u.havocOnly(st, []matcher{{exact: class}})
}

// mergeStates merges states arriving on several edges; conds[i] is the edge's full path condition.
func (u *Unit) mergeStates(sts []*State) *State {
	var live []*State
	for _, s := range sts {
		if s != nil && !s.dead {
			live = append(live, s)
		}
	}
	if len(live) == 0 {
		return &State{pc: False, heap: map[string]Term{}, cells: map[*Cell]Term{}, ghost: map[string]Term{}, dead: true}
	}
	if len(live) == 1 {
		return live[0].clone()
	}
	res := live[0].clone()
	var pcs []Term
	for _, s := range live {
		pcs = append(pcs, s.pc)
	}
	res.pc = u.defs.Define("pcj", Or(pcs...))
	// allocation frontier
	{
		acc := u.topOf(live[len(live)-1])
		same := true
		for i := len(live) - 2; i >= 0; i-- {
			t := u.topOf(live[i])
			if t.S != acc.S {
				same = false
				acc = Ite(live[i].pc, t, acc)
			}
		}
		if !same {
			acc = u.defs.Define("topj", acc)
		}
		res.top = acc
	}
	// heap generation
	sameGen := true
	for _, s := range live[1:] {
		if s.gen != live[0].gen {
			sameGen = false
		}
	}
	classes := map[string]bool{}
	for _, s := range live {
		for c := range s.heap {
			classes[c] = true
		}
	}
	if !sameGen {
		for c := range u.classSort {
			classes[c] = true
		}
	}
	// values are computed against the incoming states before the merged generation is created
	res.heap = map[string]Term{}
	for _, c := range sortedKeys(classes) {
		sort := u.classSort[c]
		acc := u.heapGet(live[len(live)-1], c, sort)
		same := true
		for i := len(live) - 2; i >= 0; i-- {
			t := u.heapGet(live[i], c, sort)
			if t.S != acc.S {
				same = false
				acc = Ite(live[i].pc, t, acc)
			}
		}
		if same {
			if sameGen {
				if _, ok := live[0].heap[c]; ok {
					res.heap[c] = acc
				}
			} else {
				res.heap[c] = acc
			}
			continue
		}
		res.heap[c] = u.defs.Define("Hj_"+c, acc)
	}
	if !sameGen {
		// classes first touched after the merge are unknown on at least one side: a fresh generation
		if u.events == nil {
			u.events = map[int]havocEvent{}
		}
		u.genCtr++
		ev := havocEvent{merge: true}
		for _, s := range live {
			ev.preds = append(ev.preds, s.gen)
			ev.pcs = append(ev.pcs, s.pc)
		}
		u.events[u.genCtr] = ev
		res.gen = u.genCtr
	}
	// cells
	cells := map[*Cell]bool{}
	for _, s := range live {
		for c := range s.cells {
			cells[c] = true
		}
	}
	res.cells = map[*Cell]Term{}
	for c := range cells {
		var acc Term
		first := true
		for i := len(live) - 1; i >= 0; i-- {
			t, ok := live[i].cells[c]
			if !ok {
				t = zeroOf(c.Sort)
			}
			if first {
				acc = t
				first = false
			} else if t.S != acc.S {
				acc = Ite(live[i].pc, t, acc)
			}
		}
		res.cells[c] = u.defs.Define("cj_"+c.Name, acc)
	}
	// ghosts
	ghosts := map[string]bool{}
	for _, s := range live {
		for g := range s.ghost {
			ghosts[g] = true
		}
	}
	res.ghost = map[string]Term{}
	for _, g := range sortedKeys(ghosts) {
		var acc Term
		first := true
		for i := len(live) - 1; i >= 0; i-- {
			t, ok := live[i].ghost[g]
			if !ok {
				if init, has := u.gens["ghost0:"+g]; has {
					t = init
				} else {
					continue
				}
			}
			if first {
				acc = t
				first = false
			} else if t.S != acc.S {
				acc = Ite(live[i].pc, t, acc)
			}
		}
		res.ghost[g] = u.defs.Define("gj_"+g, acc)
	}
	// defers: union keyed by instruction, guard merged
	type dk struct {
		d *ssa.Defer
		f *Frame
	}
	order := []dk{}
	guards := map[dk][]Term{}
	for _, s := range live {
		for _, d := range s.defers {
			k := dk{d.call, d.frame}
			if _, ok := guards[k]; !ok {
				order = append(order, k)
			}
			guards[k] = append(guards[k], And(s.pc, d.guard))
		}
	}
	res.defers = nil
	for _, k := range order {
		res.defers = append(res.defers, deferEntry{guard: u.defs.Define("dg", Or(guards[k]...)), call: k.d, frame: k.f})
	}
	return res
}
