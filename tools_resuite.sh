#!/bin/bash
# usage: tools_resuite.sh <seed-id> ...  -- re-runs only the full suite for a seed whose earlier confirmation run hit the
# known flaky specs (fixed ports 7777 / 25555 under load), up to 3 attempts, and records the outcome in its meta.json
export GOFLAGS=-mod=mod GOPROXY=off GOSUMDB=off GOTOOLCHAIN=local
for id in "$@"; do
  d=/verif/seeded/$id; wt=/var/tmp/resuite-$id
  git -C /repo worktree add -q --detach "$wt" HEAD || continue
  ( cd "$wt" && git apply "$d/patch.diff" ) || { echo "$id: patch does not apply"; git -C /repo worktree remove --force "$wt"; continue; }
  ok=1
  for k in 1 2 3; do
    ( cd "$wt" && go test -vet=off -count=1 -timeout 8m ./internal/... > "$d/suite_with_rerun$k.log" 2>&1 ) && { ok=0; break; }
  done
  git -C /repo worktree remove --force "$wt"
  python3 - "$d" $ok $k <<'PY'
import json,sys
d,ok,k=sys.argv[1],sys.argv[2],sys.argv[3]
m=json.load(open(d+'/meta.json'))
m['confirmed']['full_suite_passes_with_patch']=(ok=='0')
m.setdefault('what_i_ran',[]).append('full suite re-run %s time(s) after the first run hit the fixed-port specs under load: %s'%(k,'passed' if ok=='0' else 'still failing'))
json.dump(m,open(d+'/meta.json','w'),indent=1)
print(m['id'], m['confirmed']['full_suite_passes_with_patch'])
PY
done
