package server

import (
	"os"
	"testing"

	"github.com/DataDog/datadog-go/v5/statsd"
	"go.uber.org/zap"

	"github.com/mimiro-io/datahub/internal/conf"
)

// A contextual store (the store a JavaScript transform queries through; created once when the job is parsed and kept for
// the life of the job) copies the POINTER to the deleted-datasets set. DeleteDataset publishes a NEW set (copy on write)
// in the original store only, so the contextual store keeps filtering with the set as it was when the job was created:
// data of a dataset deleted afterwards stays visible to the transform's lookups and queries.
func TestZZContextualStoreSeesDeletedDataset(t *testing.T) {
	dir, _ := os.MkdirTemp("", "ctxprobe")
	defer os.RemoveAll(dir)
	e := &conf.Config{Logger: zap.NewNop().Sugar(), StoreLocation: dir}
	s := NewStore(e, &statsd.NoOpClient{})
	dsm := NewDsManager(e, s, NoOpBus())
	ds, err := dsm.CreateDataset("people", nil)
	if err != nil {
		t.Fatal(err)
	}
	pfx, _ := s.NamespaceManager.AssertPrefixMappingForExpansion("http://data.example.com/people/")
	homer := NewEntity(pfx+":homer", 0)
	homer.Properties[pfx+":name"] = "homer"
	if err := ds.StoreEntities([]*Entity{homer}); err != nil {
		t.Fatal(err)
	}
	ctx := NewContextualStore(s) // job with a JavaScript transform is created now
	if err := dsm.DeleteDataset("people"); err != nil {
		t.Fatal(err)
	}
	viaOriginal, err := s.GetEntity(pfx+":homer", nil, true)
	if err != nil {
		t.Fatal(err)
	}
	viaContext, err := ctx.GetEntity(pfx+":homer", nil, true)
	if err != nil {
		t.Fatal(err)
	}
	t.Logf("original store: %v properties; contextual store: %v properties", len(viaOriginal.Properties), len(viaContext.Properties))
	if len(viaOriginal.Properties) != 0 {
		t.Fatalf("original store still returns data of the deleted dataset")
	}
	if len(viaContext.Properties) != 0 {
		t.Fatalf("the contextual store returns the data of a dataset deleted after it was created: %v", viaContext.Properties)
	}
}
