#!/bin/bash
# (re)generates the must-fail corpus: each mutant is a one-line edit of /repo's HEAD that breaks a property while
# compiling; the patch files are committed, this script only documents how they were produced.
set -e
wt=/var/tmp/mutgen-$$
git -C /repo worktree add -q --detach "$wt" HEAD
out=/verif/selftest/mutants
mk() { # id prop file sed-expr expected-obligation-substring
  id="$1"; prop="$2"; file="$3"; expr="$4"; expect="$5"
  ( cd "$wt" && sed -i "$expr" "$file" && git diff > "$out/$id.patch" && git checkout -q -- . )
  if [ ! -s "$out/$id.patch" ]; then echo "mutant $id produced no change"; rm -f "$out/$id.patch"; return; fi
  printf '{"id":"%s","property":"%s","expect":"%s"}\n' "$id" "$prop" "$expect" > "$out/$id.json"
}
S=internal/server; J=internal/jobs
mk c02-lastseen        C02 $S/dataset.go 's|return lastSeen + 1, nil|return lastSeen, nil|' 'token-is-last-seen-plus-one'
mk c02-since-plus-one  C02 $S/dataset.go 's|\t\treturn since, nil|\t\treturn since + 1, nil|' 'token-unchanged-when-nothing-found'
mk c02-wrong-offset    C02 $S/dataset.go 's|lastSeen = binary.BigEndian.Uint64(k\[6:\])|lastSeen = binary.BigEndian.Uint64(k[14:])|' 'ProcessChangesRaw'
mk c02-seek-off        C02 $S/dataset.go 's|binary.BigEndian.PutUint64(searchBuffer\[6:\], since)|binary.BigEndian.PutUint64(searchBuffer[6:], since+1)|' 'ProcessChangesRaw'
mk c02-dup-in-batch    C02 $S/dataset.go '/isDifferent = isDifferentLocally/d' 'write-only-if-new-or-different'
mk c01-latest-value    C01 $S/dataset.go 's|err = txn.Set(datasetEntitiesLatestVersionKey, entityIDBuffer)|err = txn.Set(datasetEntitiesLatestVersionKey, entityIDChangeTimeBuffer)|' 'latest-points-to-written-version'
mk c01-deleted-flag    C01 $S/entity.go '/if prevEntity.IsDeleted != thisEntity.IsDeleted {/,+2d' 'equal-means-same-deleted-flag'
mk c03-tombstone-flag  C03 $S/dataset.go '0,/binary.BigEndian.PutUint16(incomingBuffer\[34:\], 1) \/\/ is deleted/s//binary.BigEndian.PutUint16(incomingBuffer[34:], 0) \/\/ is deleted/' 'incoming-tombstone-deleted-entity'
mk c03-ds-offset       C03 $S/dataset.go '0,/binary.BigEndian.PutUint32(outgoingBuffer\[36:\], ds.InternalID)/s//binary.BigEndian.PutUint32(outgoingBuffer[34:], ds.InternalID)/' 'outgoing-key-new-entity'
mk c04-commit-order    C04 $S/dataset.go 's|err = ds.store.commitIDTxn()|err = txn.Commit()|; 0,/\terr = txn.Commit()\n/s///' 'ids-committed-before-data'
mk c06-recorded-time   C06 $S/dataset.go 's|e.Recorded = uint64(txnTime)|e.Recorded = uint64(txnTime) + 1|' 'version-stamped-with-transaction-time'
mk c09-seen            C09 $S/dataset.go 's|ds.fullSyncSeen\[e.InternalID\] = 1|ds.fullSyncSeen[e.InternalID+1] = 1|' 'seen-recorded'
mk c10-ceil            C10 $J/pipeline.go 's|psize := (len(entities) + parallelisms - 1) / parallelisms|psize := len(entities) / parallelisms|' 'sync$1'
mk c11-double-return   C11 $J/raffle.go 's|\t\tr.ticketsFull++|\t\tr.ticketsFull += 2|' 'ticket-returned'
mk c11-running-test    C11 $J/raffle.go 's|\tif ok {                        // it is, dont give a ticket|\tif false {|; s|if ok {                        // it is, don.t give a ticket|if false \&\& ok {|' 'one-run-per-id'
mk c13-lastindex       C13 $S/store.go 's|index := strings.LastIndex(url, "#")|index := strings.Index(url, "#")|' 'getURLParts'
mk c13-prefix-number   C13 $S/store.go 's|prefix = "ns" + strconv.Itoa(len(namespaceManager.prefixToExpansionMapping))|prefix = "ns" + strconv.Itoa(len(namespaceManager.expansionToPrefixMapping)+1)|' 'AssertPrefixMappingForExpansion'
mk c15-typeassert      C15 $S/streamparser.go 's|idVal, isString := val.(string)|idVal, isString := val.(string), true|' 'typeassert'
mk c16-deny            C16 internal/security/manager.go 's|\t\t\tif ac.Deny {|\t\t\tif ac.Deny \&\& granted {|' 'IsGranted'
mk c16-put-read        C16 internal/web/middlewares/authorization.go 's|method == http.MethodGet \|\| method == http.MethodHead|method == http.MethodGet \|\| method == http.MethodPut \|\| method == http.MethodHead|' 'doAclCheck'
mk c17-split           C17 $J/error_handler.go 's|if len(entities) <= 1 {|if len(entities) <= 2 {|' 'isolated'
mk c18-watermark       C18 $S/dataset.go 's|if changesIterator.Valid() {|if true {|' 'item-exists'
mk c20-cursor-path     C20 $S/backup.go '0,/"datahub-backup.lastseen"/s//"datahub-backups.lastseen"/' 'cursor-path'
mk c20-readonly        C20 $S/backup.go 's|os.O_APPEND.os.O_CREATE.os.O_WRONLY|os.O_APPEND\|os.O_CREATE\|os.O_RDONLY|' 'writable-sink'
mk c08-token-early     C08 $J/pipeline.go 's|\t\t\t\t\terr = pipeline.sink.processEntities(runner, entities)|\t\t\t\t\terr = nil|' 'token-stored-only-after'
git -C /repo worktree remove --force "$wt"
ls $out | wc -l
