#!/bin/bash
# run all checks in parallel (4 at a time), print summary
cd /verif
export GOFLAGS=-mod=vendor GOPROXY=off GOSUMDB=off GOTOOLCHAIN=local
(cd engine && go build -o /verif/bin/vcgen ./cmd/vcgen) || exit 2
props="${@:-C01 C02 C03 C04 C05 C06 C07 C08 C09 C10 C11 C12 C13 C14 C15 C16 C17 C18 C19 C20}"
echo $props | tr ' ' '\n' | xargs -P 4 -I{} sh -c './check {} > /tmp/chk-{}.log 2>&1; echo "{} rc=$? viol=$(grep -c "^VIOLATION" /tmp/chk-{}.log) kf=$(grep -c KNOWN-FINDING /tmp/chk-{}.log)"' | sort
