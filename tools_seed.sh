#!/bin/bash
# usage: tools_seed.sh <seed-id> <property> <agent-out-dir> <demo-pkg-dir relative to repo> 
# Confirms a seeded breaking change in a scratch worktree: builds, demo fails with / passes without, full suite passes with.
set -u
id="$1"; prop="$2"; src="$3"; pkg="$4"
export GOFLAGS=-mod=mod GOPROXY=off GOSUMDB=off GOTOOLCHAIN=local
wt=/var/tmp/seedwt-$id
dst=/verif/seeded/$id
mkdir -p "$dst"
cp "$src/patch.diff" "$dst/patch.diff"
demo=$(ls "$src"/zz_demo_*_test.go | head -1)
cp "$demo" "$dst/"
[ -f "$src/notes.txt" ] && cp "$src/notes.txt" "$dst/notes.txt"
git -C /repo worktree add -q --detach "$wt" HEAD || exit 2
cp "$demo" "$wt/$pkg/"
dn=$(basename "$demo")
tn=$(grep -o 'func Test[A-Za-z0-9_]*' "$demo" | sed 's/func //' | paste -sd'|' | sed 's/^/(/; s/$/)/')
( cd "$wt" && go test -vet=off -count=1 -timeout 300s -run "^$tn\$" ./$pkg/ > "$dst/demo_without.log" 2>&1 ); without=$?
( cd "$wt" && git apply "$dst/patch.diff" ) || { echo "patch does not apply"; git -C /repo worktree remove --force "$wt"; exit 2; }
( cd "$wt" && go build ./... > "$dst/build.log" 2>&1 ); build=$?
( cd "$wt" && go test -vet=off -count=1 -timeout 300s -run "^$tn\$" ./$pkg/ > "$dst/demo_with.log" 2>&1 ); with=$?
rm -f "$wt/$pkg/$dn"
( cd "$wt" && go test -vet=off -count=1 -timeout 8m ./internal/... > "$dst/suite_with.log" 2>&1 ); suite=$?
if [ $suite -ne 0 ]; then  # the jobs package is flaky under load: retry the failing packages once
  ( cd "$wt" && go test -vet=off -count=1 -timeout 8m ./internal/... > "$dst/suite_with_retry.log" 2>&1 ); suite=$?
fi
git -C /repo worktree remove --force "$wt"
python3 - "$id" "$prop" "$pkg" "$tn" $without $build $with $suite <<'PY'
import json,sys
id,prop,pkg,tn,without,build,with_,suite=sys.argv[1:9]
meta={"id":id,"breaks_property":prop,"demo_test":tn,"demo_package":pkg,
 "confirmed":{"builds_with_patch":build=="0","demo_passes_without_patch":without=="0","demo_fails_with_patch":with_!="0","full_suite_passes_with_patch":suite=="0"},
 "what_i_ran":["git worktree add (scratch, outside /repo and /verif)","go test -run ^%s$ ./%s/ (unpatched)"%(tn,pkg),"git apply patch.diff","go build ./...","go test -run ^%s$ ./%s/ (patched)"%(tn,pkg),"go test -vet=off -count=1 ./internal/... (patched, demo removed)","git worktree remove --force"]}
try:
    meta["needs_to_manifest"]=open('/verif/seeded/%s/notes.txt'%id).read()[:1500]
except Exception: pass
json.dump(meta,open('/verif/seeded/%s/meta.json'%id,'w'),indent=1)
print(id, meta["confirmed"])
PY
