package main

import (
	"flag"
	"fmt"
	"os"
	"strings"

	"verif/engine/vc"
)

func main() {
	if len(os.Args) > 2 && (os.Args[1] == "check" || os.Args[1] == "expected") {
		prop := os.Args[2]
		thorough := false
		repo := "/repo"
		for _, a := range os.Args[3:] {
			if a == "--thorough" {
				thorough = true
			}
			if strings.HasPrefix(a, "--repo=") {
				repo = strings.TrimPrefix(a, "--repo=")
			}
		}
		code := runCheck(prop, thorough, repo, os.Args[1] == "expected")
		vc.CleanupScratch()
		os.Exit(code)
	}
	repo := flag.String("repo", "/repo", "repository root")
	pkgs := flag.String("pkgs", "", "comma separated package patterns")
	unit := flag.String("unit", "", "unit name filter (substring)")
	dump := flag.String("dump", "", "dump queries of obligations matching substring")
	timeout := flag.Int("timeout", 10000, "solver timeout ms")
	anchors := flag.String("anchors", "", "list call/loop anchors of a function (canonical name)")
	prelude := flag.String("prelude", "/verif/prelude", "prelude directory")
	flag.Parse()
	defer vc.CleanupScratch()
	eng, err := vc.Load(*repo, strings.Split(*pkgs, ","), *prelude)
	if err != nil {
		fmt.Println("load error:", err)
		os.Exit(2)
	}
	if *anchors != "" {
		for _, a := range eng.Anchors(*anchors) {
			fmt.Println(a)
		}
		return
	}
	for name, spec := range eng.Contracts {
		if spec.Assumed || spec.External || (*unit != "" && !strings.Contains(name, *unit)) {
			continue
		}
		rep := eng.GenerateUnit(spec)
		fmt.Printf("== unit %s: %d obligations, %d blocks, %d instrs, gen %d ms\n", rep.Unit, len(rep.Obls), rep.Blocks, rep.Instrs, rep.GenMs)
		for _, e := range rep.Errors {
			fmt.Println("   ERROR:", e)
		}
		for _, a := range rep.Abstracted {
			fmt.Println("   abstracted:", a)
		}
		vc.SolveAll(rep.Obls, *timeout, 1)
		for _, o := range rep.Obls {
			fmt.Printf("   %-70s %-8s %-14s %5d ms  %v\n", o.Name, o.Res.Verdict, o.Res.Backend, o.Res.Ms, o.Props)
			if *dump != "" && strings.Contains(o.Name, *dump) {
				fmt.Println(o.Query)
				fmt.Println(o.Res.Output)
			}
		}
	}
}
